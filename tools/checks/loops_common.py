"""Shared by C17/C18/C19: OKL loop-nest / @dim generators, the Polish line protocol, and the
execution oracle (the complete translated sources of every backend are compiled into a host
program together with harness/emu_launch.hpp and run over a grid of run-time operand values).

No property logic lives in vlib; everything here is specific to the three loop properties.
"""
import os, re, subprocess, hashlib
from vlib import *

VARS = ["N", "M", "a", "b", "c", "s", "t"]          # kernel arguments, all `const int`
MODES = ["serial", "openmp", "cuda", "hip", "opencl", "metal", "dpcpp"]
LAUNCH_MODES = MODES[2:]
HENV = {"ASAN_OPTIONS": "detect_leaks=0:abort_on_error=0:exitcode=66:allocator_may_return_null=1"}
if os.environ.get("VERIF_LOOPS_PRELOAD"):
    # mutation-testing aid (design-notes/C18.md): a shared object holding ONE re-compiled translation unit of
    # libocca, interposed in front of the real library for the harness and the emulation programs only
    HENV["LD_PRELOAD"] = os.environ["VERIF_LOOPS_PRELOAD"]

# ----------------------------------------------------------------------------- expressions
# tree: ('v',name) ('c',n) ('P',e) ('cast',e) ('un',op,e) ('bin',op,l,r) ('tern',c,t,f)
BIN_LEVEL = {"*": 13, "/": 13, "%": 13, "+": 12, "-": 12, "<<": 11, ">>": 11, "<": 10, "<=": 10, ">": 10, ">=": 10,
             "==": 9, "!=": 9, "&": 8, "^": 7, "|": 6, "&&": 5, "||": 4}
UN_NAME = {"-": "neg", "+": "pos", "!": "not", "~": "bnot"}
CLASSES = ["atom", "paren", "unary", "cast", "mul", "add", "shift", "rel", "eq", "band", "bxor", "bor", "land", "lor", "tern"]
CLASS_OPS = {"mul": ["*", "/", "%"], "add": ["+", "-"], "shift": ["<<", ">>"], "rel": ["<", "<=", ">", ">="],
             "eq": ["==", "!="], "band": ["&"], "bxor": ["^"], "bor": ["|"], "land": ["&&"], "lor": ["||"]}


def level(e):
    k = e[0]
    if k in ("v", "c", "P"):
        return 15
    if k in ("un", "cast"):
        return 14
    if k == "bin":
        return BIN_LEVEL[e[1]]
    return 3


def polish(e):
    k = e[0]
    if k == "v":
        return "v" + e[1]
    if k == "c":
        return "c%d" % e[1]
    if k == "P":
        return "P," + polish(e[1])
    if k == "cast":
        return "cast," + polish(e[1])
    if k == "un":
        return UN_NAME[e[1]] + "," + polish(e[2])
    if k == "bin":
        return e[1] + "," + polish(e[2]) + "," + polish(e[3])
    return "?," + polish(e[1]) + "," + polish(e[2]) + "," + polish(e[3])


def ctext(e):
    """in-order text; parentheses only for explicit P nodes (same rule as the C++ harness)"""
    k = e[0]
    if k == "v":
        return e[1]
    if k == "c":
        return str(e[1])
    if k == "P":
        return "(" + ctext(e[1]) + ")"
    if k == "cast":
        return "(int) " + ctext(e[1])
    if k == "un":
        return e[1] + ctext(e[2])
    if k == "bin":
        return ctext(e[2]) + " " + e[1] + " " + ctext(e[3])
    return ctext(e[1]) + " ? " + ctext(e[2]) + " : " + ctext(e[3])


def tdiv(a, b):
    q = abs(a) // abs(b)
    return q if (a < 0) == (b < 0) else -q


def wrap32(x):
    return (x + 2**31) % 2**32 - 2**31


def ev(e, env):
    """C `int` semantics (values stay tiny, wrap only for safety)"""
    k = e[0]
    if k == "v":
        return env[e[1]]
    if k == "c":
        return e[1]
    if k in ("P", "cast"):
        return ev(e[1], env)
    if k == "un":
        x = ev(e[2], env)
        return {"-": -x, "+": x, "!": int(x == 0), "~": ~x}[e[1]]
    if k == "tern":
        return ev(e[2], env) if ev(e[1], env) != 0 else ev(e[3], env)
    op = e[1]
    if op == "&&":
        return int(ev(e[2], env) != 0 and ev(e[3], env) != 0)
    if op == "||":
        return int(ev(e[2], env) != 0 or ev(e[3], env) != 0)
    x, y = ev(e[2], env), ev(e[3], env)
    if op == "+": return wrap32(x + y)
    if op == "-": return wrap32(x - y)
    if op == "*": return wrap32(x * y)
    if op == "/": return tdiv(x, y) if y else 0
    if op == "%": return (x - y * tdiv(x, y)) if y else 0
    if op == "<<": return wrap32(x << (y & 31))
    if op == ">>": return x >> (y & 31)
    if op == "<": return int(x < y)
    if op == "<=": return int(x <= y)
    if op == ">": return int(x > y)
    if op == ">=": return int(x >= y)
    if op == "==": return int(x == y)
    if op == "!=": return int(x != y)
    if op == "&": return x & y
    if op == "^": return x ^ y
    if op == "|": return x | y
    raise ValueError(op)


def atom(r, positive=False):
    if positive:
        return ("v", r.choice(["s", "t"])) if r.random() < 0.5 else ("c", r.randint(1, 6))
    k = r.random()
    if k < 0.6:
        return ("v", r.choice(["N", "M", "a", "b", "c"]))
    return ("c", r.choice([0, 1, 2, 3, 4, 5, 7, 8, 10, 16]))


def operand(r, minlevel, depth, positive=False):
    """an expression that may stand where precedence level >= minlevel is required"""
    if depth <= 0 or r.random() < 0.55:
        return atom(r, positive)
    e = gen_expr(r, r.choice(CLASSES), depth - 1, positive)
    if e[0] in ("un", "cast"):
        # the OKL expression parser cannot read a prefix operator right after a binary one that also has a
        # unary spelling (`1 & ~b`: "Unable to form an expression"; not a C17-C19 matter): parenthesise
        return ("P", e)
    return e if level(e) >= minlevel else ("P", e)


def gen_expr(r, cls, depth=1, positive=False):
    """expression whose top-level node belongs to precedence class `cls`.  With positive=True the
    value is > 0 for every value tuple the generators use (s, t >= 1): steps and tile sizes."""
    if cls == "atom":
        return atom(r, positive)
    if cls == "paren":
        return ("P", gen_expr(r, r.choice(CLASSES), depth, positive))
    if positive:
        p = lambda: operand(r, 15, 0, True)
        if cls == "unary":
            return ("un", "+", p())
        if cls == "cast":
            return ("cast", atom(r, True))
        if cls == "mul":
            return ("bin", "*", p(), p())
        if cls == "add":
            return ("bin", "+", p(), p())
        if cls == "shift":
            return ("bin", "<<", p(), ("c", r.randint(0, 2)))
        if cls in ("rel", "eq", "land", "lor"):       # value 1: a legal (if odd) step / tile size
            return {"rel": ("bin", "<=", ("c", 0), p()), "eq": ("bin", "==", ("v", "s"), ("v", "s")),
                    "land": ("bin", "&&", p(), p()), "lor": ("bin", "||", p(), ("v", "a"))}[cls]
        if cls == "band":
            return ("bin", "&", ("P", ("bin", "|", p(), ("c", 4))), ("c", 7))
        if cls == "bxor":
            return ("bin", "^", ("P", ("bin", "<<", p(), ("c", 3))), ("c", r.randint(1, 3)))
        if cls == "bor":
            return ("bin", "|", p(), ("c", r.choice([1, 2, 4])))
        return ("tern", ("v", r.choice(["a", "b"])), p(), p())
    if cls == "unary":
        return ("un", r.choice(["-", "+", "~", "!"]), operand(r, 15, depth))
    if cls == "cast":
        # the OKL expression parser rejects `x + (int) (y)` ("Unable to apply operator"; not a C17-C19 matter):
        # casts are applied to atoms only
        return ("cast", atom(r))
    if cls == "tern":
        # a conditional nested in the MIDDLE operand (`c ? a ? 1 : 2 : 3`, valid C) is not understood by the OKL
        # expression parser (inside an attribute argument the failure is even a NULL dereference); steer: parenthesise
        return ("tern", operand(r, 4, depth), operand(r, 4, depth), operand(r, 3, depth))
    op = r.choice(CLASS_OPS[cls])
    lv = BIN_LEVEL[op]
    left = operand(r, lv, depth)
    if op in ("/", "%"):
        right = ("c", r.choice([1, 2, 3, 5]))
    elif op in ("<<", ">>"):
        right = ("c", r.randint(0, 3))
    else:
        right = operand(r, lv + 1, depth)
    return ("bin", op, left, right)


# ----------------------------------------------------------------------------- loops
class Loop:
    """one `for` header of the OKL loop grammar"""
    def __init__(self, var, attr, ityp, init, cmp, side, bound, upd, step=None, tile=None):
        self.var, self.attr, self.ityp, self.init, self.cmp, self.side = var, attr, ityp, init, cmp, side
        self.bound, self.upd, self.step, self.tile = bound, upd, step, tile     # tile = (T, battr, iattr, check) or None

    @property
    def increasing(self):
        return self.upd in ("preinc", "postinc", "addeq")

    def token(self):
        t = "-" if self.tile is None else "%s:%s:%s:%s" % (polish(self.tile[0]), self.tile[1], self.tile[2], self.tile[3])
        return ";".join([self.var, self.attr, self.ityp, polish(self.init), self.cmp, self.side, polish(self.bound),
                         self.upd, polish(self.step) if self.step is not None else "-", t])

    def header(self):
        """native C++ header (no attributes): the sequential loop the property refers to"""
        c = {"lt": "<", "le": "<=", "gt": ">", "ge": ">="}[self.cmp]
        chk = "%s %s %s" % ((self.var, c, ctext(self.bound)) if self.side == "R" else (ctext(self.bound), c, self.var))
        u = {"preinc": "++" + self.var, "postinc": self.var + "++", "predec": "--" + self.var, "postdec": self.var + "--",
             "addeq": "%s += %s" % (self.var, ctext(self.step) if self.step else ""),
             "subeq": "%s -= %s" % (self.var, ctext(self.step) if self.step else "")}[self.upd]
        return "for (%s %s = %s; %s; %s)" % (self.ityp, self.var, ctext(self.init), chk, u)

    def count(self, env):
        """number of iterations of the sequential loop (python reference, used only to choose values)"""
        i, b = ev(self.init, env), ev(self.bound, env)
        s = ev(self.step, env) if self.step is not None else 1
        if s <= 0:
            return None
        d = (b - i) if self.increasing else (i - b)
        if self.cmp in ("le", "ge"):
            d += 1
        return 0 if d <= 0 else (d + s - 1) // s


def gen_loop(r, var, attr, classes=None, tile=None, small=False, ityp=None):
    inc = r.random() < 0.55
    strict = r.random() < 0.6
    cmp_iter_left = ("lt" if strict else "le") if inc else ("gt" if strict else "ge")
    side = "R" if r.random() < 0.65 else "L"
    # `B > i` is the same test as `i < B`
    cmp = cmp_iter_left if side == "R" else {"lt": "gt", "le": "ge", "gt": "lt", "ge": "le"}[cmp_iter_left]
    cl = classes or CLASSES
    d = 0 if small else 1
    init = gen_expr(r, r.choice(cl if r.random() < 0.5 else ["atom"]), d)
    bound = gen_expr(r, r.choice(cl), d)
    if level(bound) <= BIN_LEVEL["<"]:
        # `o > a & b` IS `(o > a) & b` in C: a bound that binds no tighter than the comparison must be
        # written with parentheses in the source, there is no other way to say it
        bound = ("P", bound)
    k = r.random()
    if k < 0.45:
        upd, step = (r.choice(["preinc", "postinc"]) if inc else r.choice(["predec", "postdec"])), None
    else:
        upd = "addeq" if inc else "subeq"
        step = gen_expr(r, r.choice(cl if r.random() < 0.5 else ["atom"]), 1, positive=True)
    return Loop(var, attr, ityp or ("int" if r.random() < 0.85 else "long"), init, cmp, side, bound, upd, step, tile)


def kernel_op(kid, loops):
    return "K %d %s" % (kid, " ".join(l.token() for l in loops))


# ----------------------------------------------------------------------------- value tuples
GRID = {"N": [-9, -3, -1, 0, 1, 2, 3, 5, 8, 13, 17, 24], "M": [-4, 0, 1, 2, 3, 6, 9, 12], "a": [-5, -1, 0, 1, 2, 3, 6],
        "b": [-2, 0, 1, 3, 4, 7], "c": [-1, 0, 1, 2, 5], "s": [1, 2, 3, 5], "t": [1, 2, 3, 4, 7]}


def pick_values(r, loops, n, extra_positive=(), maxprod=4000):
    """n value tuples for a nest: a mix of (i) all loops non-empty, (ii) some loop empty, (iii) boundary counts
    (0/1, non-multiples of the step), chosen by evaluating the operand expressions in python.  Tuples where a
    step or tile size is <= 0 (loop not in the property's domain) or the nest is too large are dropped."""
    cands = []
    for _ in range(60 + 25 * n):
        env = {v: r.choice(GRID[v]) for v in VARS}
        cs = [l.count(env) for l in loops]
        if any(c is None for c in cs):
            continue
        ok = True
        for l in loops:
            if l.tile is not None and ev(l.tile[0], env) <= 0:
                ok = False
        for e in extra_positive:
            if ev(e, env) <= 0:
                ok = False
        if not ok:
            continue
        prod = 1
        for c in cs:
            prod *= max(c, 1)
        if prod > maxprod:
            continue
        cands.append((env, cs))
    out, seen = [], set()

    def take(pred, k):
        for env, cs in cands:
            if k <= 0:
                break
            key = tuple(env[v] for v in VARS)
            if key in seen or not pred(cs):
                continue
            seen.add(key)
            out.append(env)
            k -= 1
    take(lambda cs: all(c >= 2 for c in cs), (n + 1) // 2)
    take(lambda cs: any(c == 0 for c in cs), n // 4)
    take(lambda cs: any(c == 1 for c in cs), n // 6)
    take(lambda cs: True, n - len(out))
    return out


# ----------------------------------------------------------------------------- execution oracle
def unhex(h):
    return "" if h == "-" else bytes.fromhex(h).decode(errors="replace")


def parse_dump(obs_line):
    """harness line `ok | ... @@SRC okl=<hex> serial=<hex> cuda=<hex> cuda.launcher=<hex> ...` -> dict"""
    if " @@SRC " not in obs_line:
        return None
    d = {}
    for kv in obs_line.split(" @@SRC ", 1)[1].split():
        k, _, v = kv.partition("=")
        d[k] = unhex(v)
    return d


def strip_dump(obs_line):
    return obs_line.split(" @@SRC ", 1)[0]


def clean_source(src):
    out = []
    for l in src.splitlines():
        s = l.strip()
        if s.startswith("#include") or s.startswith("#pragma OPENCL"):
            continue
        out.append(l.replace('extern "C" ', ""))
    return "\n".join(out)


ARGS_DECL = "const int " + ", ".join("%s = v.%s" % (x, x) for x in VARS)
ARGS_CALL = ", ".join("v.%s" % x for x in VARS)


def emu_unit(kid, fname, ref_body, srcs, extra=None):
    """C++ text for one kernel: reference loop + every backend's translation + run wrappers.
    `fname` is the OKL kernel name (k<id>); srcs maps serial/openmp/<mode>/<mode>.launcher to source text.
    extra = {"host": ", emu_x", "dev": ", emu_x", "launch": ", (occa::modeMemory_t*) 0"} appends one more
    argument (C19: the @dim array) to the calls of the kept-loop kernel / the device kernel / the launcher."""
    extra = extra or {"host": "", "dev": "", "launch": ""}
    ARGS_HOST, ARGS_DEV, ARGS_LAUNCH = ARGS_CALL + extra["host"], ARGS_CALL + extra["dev"], ARGS_CALL + extra["launch"]
    o = ["namespace K%d {" % kid,
         "static void ref(const Vals &v) { %s; (void) N; (void) M; (void) a; (void) b; (void) c; (void) s; (void) t;\n"
         "  long long guard = 0; (void) guard;\n%s\n}" % (ARGS_DECL, ref_body)]
    modes = []
    for m in MODES:
        if m not in srcs:
            continue
        modes.append(m)
        o.append("namespace %s {" % m)
        if m in ("serial", "openmp"):
            o.append(clean_source(srcs[m]))
            o.append("static void run(const Vals &v) { %s(%s); }" % (fname, ARGS_HOST))
        else:
            dev = "_occa_%s_0" % fname
            if m == "metal":
                o.append("#define kernel\n#define constant const\n#define device\n#define threadgroup")
            o.append(clean_source(srcs[m]))
            if m == "metal":
                o.append("#undef kernel\n#undef constant\n#undef device\n#undef threadgroup")
            o.append(clean_source(srcs[m + ".launcher"]))
            if m in ("cuda", "hip"):
                call = ("blockIdx.x = bx; blockIdx.y = by; blockIdx.z = bz; threadIdx.x = tx; threadIdx.y = ty; threadIdx.z = tz; "
                        "%s(%s);" % (dev, ARGS_DEV))
                body = "emu::grid(od, id, [&](size_t bx, size_t by, size_t bz, size_t tx, size_t ty, size_t tz) { %s });" % call
            elif m == "opencl":
                # clEnqueueNDRangeKernel(global = outer * inner, local = inner)
                call = ("emu_group[0] = bx; emu_group[1] = by; emu_group[2] = bz; emu_local[0] = tx; emu_local[1] = ty; emu_local[2] = tz; "
                        "%s(%s);" % (dev, ARGS_DEV))
                body = ("occa::dim full = od * id; occa::dim groups = full / id; "
                        "emu::grid(groups, id, [&](size_t bx, size_t by, size_t bz, size_t tx, size_t ty, size_t tz) { %s });" % call)
            elif m == "metal":
                call = ("uint3 g = {(unsigned) bx, (unsigned) by, (unsigned) bz}; uint3 l = {(unsigned) tx, (unsigned) ty, (unsigned) tz}; "
                        "%s(%s, g, l);" % (dev, ARGS_DEV))
                body = "emu::grid(od, id, [&](size_t bx, size_t by, size_t bz, size_t tx, size_t ty, size_t tz) { %s });" % call
            else:
                # dpcpp/kernel.cpp::deviceRun
                body = ("occa::dim fullDims = (od * id);\n"
                        "  ::sycl::range<3> global_range{fullDims.z, fullDims.y, fullDims.x};\n"
                        "  ::sycl::range<3> local_range{id.z, id.y, id.x};\n"
                        "  ::sycl::nd_range<3> ndrange{global_range, local_range};\n"
                        "  ::sycl::queue q; %s(&q, &ndrange, %s);" % (dev, ARGS_DEV))
            o.append("static void run(const Vals &v) {\n  emu::FakeKernel fk;\n"
                     "  fk.body = [&](const occa::dim &od, const occa::dim &id) {\n  %s\n  };\n"
                     "  occa::modeKernel_t *dk[1] = {&fk};\n  %s(dk, %s);\n}" % (body, fname, ARGS_LAUNCH))
        o.append("}")
    o.append("static const Entry entries[] = {%s};" % ", ".join('{"%s", %s::run}' % (m, m) for m in modes))
    o.append("static const int nentries = %d;" % len(modes))
    o.append("}")
    return "\n".join(o)


EMU_MAIN = r"""
struct KernelRow { int id; void (*ref)(const Vals&); const Entry *entries; int n; };
static const KernelRow table[] = { %s };
int main() {
  char line[512];
  while (fgets(line, sizeof line, stdin)) {
    int id; Vals v;
    if (sscanf(line, "%%d %%d %%d %%d %%d %%d %%d %%d", &id, &v.N, &v.M, &v.a, &v.b, &v.c, &v.s, &v.t) != 8) continue;
    for (const KernelRow &k : table) {
      if (k.id != id) continue;
      std::printf("@ %%s", line);
      emu::visited.clear(); emu::huge = false; runaway = false;
      k.ref(v);
      std::vector<emu::Tuple> seq = emu::visited;        // in sequential order
      if (runaway || emu::huge) { std::printf("ref RUNAWAY\n"); continue; }
      emu::print("ref", seq);
      std::vector<emu::Tuple> sorted = seq; emu::canon(sorted);
      for (int m = 0; m < k.n; ++m) {
        emu::visited.clear(); emu::huge = false; emu::lastInner[0] = 0;
        bool exc = false;
        try { k.entries[m].run(v); } catch (...) { exc = true; }
        std::vector<emu::Tuple> got = emu::visited;
        // Serial keeps the sequential order except where @tile reorders loops (2-D tiling floats the inner
        // @outer block loop up): the property is about the multiset, so that is what is compared
        const bool ordered = false;
        if (!ordered) emu::canon(got);
        if (exc) std::printf("%%s EXC\n", k.entries[m].mode);
        else if (emu::huge) std::printf("%%s HUGE\n", k.entries[m].mode);
        else if (got == (ordered ? seq : sorted)) std::printf("%%s =\n", k.entries[m].mode);
        else { std::string tag = k.entries[m].mode; emu::print(tag.c_str(), got); }
        if (emu::lastInner[0]) std::printf("%%%%dims %%s %%lld %%lld %%lld\n", k.entries[m].mode, emu::lastInner[0], emu::lastInner[1], emu::lastInner[2]);
      }
      std::fflush(stdout);
    }
  }
  return 0;
}
"""

EMU_HEAD = """#include "emu_launch.hpp"
#include <cstring>
#include <string>
using emu::rec;
struct Vals { int N, M, a, b, c, s, t; };
struct Entry { const char *mode; void (*run)(const Vals&); };
static bool runaway = false;
static int emu_x[4];        // C19: the @dim array (only its address is used)
#define GUARD if (++guard > (long long) emu::CAP) { runaway = true; return; }
"""


class Emu:
    """builds, compiles (one g++ run per batch) and runs the emulation programs"""
    def __init__(self, ck, tag):
        self.ck, self.tag = ck, tag
        self.bdir = os.path.join(BUILD, "asan")
        self.dir = os.path.join(BUILD, "tmp", "emu_%s_%d" % (tag, os.getpid()))
        os.makedirs(self.dir, exist_ok=True)
        self.nbatch = 0
        import threading
        self.lock = threading.Lock()
        self.compile_s = 0.0
        self.run_s = 0.0

    def compile(self, units, rows):
        """units: list of C++ texts (emu_unit); rows: list of kernel ids.  Returns binary path or None (+stderr)."""
        with self.lock:
            self.nbatch += 1
            nb = self.nbatch
        src = os.path.join(self.dir, "b%d.cpp" % nb)
        exe = os.path.join(self.dir, "b%d" % nb)
        table = ", ".join("{%d, K%d::ref, K%d::entries, K%d::nentries}" % (k, k, k, k) for k in rows)
        with open(src, "w") as f:
            f.write(EMU_HEAD + "\n".join(units) + (EMU_MAIN % table))
        t0 = time.time()
        cmd = ["g++", "-std=c++17", "-O0", "-g0", "-w", "-fopenmp", "-fsanitize=address", "-DLIBOCCA_OCCA_VERIF",
               "-I%s/include" % REPO, "-I%s/src" % REPO, "-I%s/include" % self.bdir, "-I" + os.path.join(VERIF, "harness"),
               src, "-o", exe, "-L%s/lib" % self.bdir, "-locca", "-Wl,-rpath,%s/lib" % self.bdir, "-ldl", "-lpthread"]
        rc, so, se = sh(cmd, timeout=1800)
        self.compile_s += time.time() - t0
        if rc != 0:
            return None, se
        return exe, ""

    def run(self, exe, lines, timeout=600):
        """lines: `id N M a b c s t`; returns {(id, vals-tuple): {"ref": [...]|None, mode: "="|"HUGE"|"EXC"|[...]}}"""
        t0 = time.time()
        env = dict(HENV)
        env.update({"OCCA_DIR": REPO, "OCCA_CACHE_DIR": os.path.join(BUILD, "occa_cache"), "OMP_NUM_THREADS": "3", "OCCA_VERBOSE": "0"})
        rc, so, se = sh([exe], input="\n".join(lines) + "\n", timeout=timeout, env=env)
        self.run_s += time.time() - t0
        res, cur = {}, None
        for l in so.splitlines():
            if l.startswith("@ "):
                f = l[2:].split()
                cur = (int(f[0]), tuple(int(x) for x in f[1:8]))
                res[cur] = {}
            elif l.startswith("%dims ") and cur is not None:
                f = l.split()
                res[cur]["%dims " + f[1]] = tuple(int(x) for x in f[2:5])
            elif cur is not None:
                tag, _, rest = l.partition(" ")
                if rest in ("=", "HUGE", "EXC", "RUNAWAY"):
                    res[cur][tag] = rest
                else:
                    res[cur][tag] = [tuple(int(x) for x in t.split(",")) for t in rest.split()]
        return res, rc, se

    def cleanup(self):
        shutil.rmtree(self.dir, ignore_errors=True)


def ref_body_for(kid, loops):
    ind, o = "  ", []
    for l in loops:
        o.append(ind + l.header() + " {")
        ind += "  "
    o.append(ind + "GUARD rec(%d%s);" % (kid, "".join(", " + l.var for l in loops)))
    for _ in loops:
        ind = ind[2:]
        o.append(ind + "}")
    return "\n".join(o)


# ----------------------------------------------------------------------------- the check pipeline
class Case:
    """one generated kernel: loops (outermost first) + the value tuples it is run with"""
    extra = None

    def __init__(self, kid, loops, values):
        self.kid, self.loops, self.values = kid, loops, values
        self.op = kernel_op(kid, loops)

    def ref_body(self):
        return ref_body_for(self.kid, self.loops)

    def rline(self, v):
        return "R %d %s | %s" % (self.kid, " ".join(l.token() for l in self.loops), vals_line(v))

    def describe(self):
        return " ".join(l.header() for l in self.loops)

    def parse_model(self, mline):
        md = {}
        for seg in mline.split(" | "):
            tag, _, rest = seg.partition(" ")
            md[tag] = [tuple(int(x) for x in t.split(",")) for t in rest.split()]
        return md


def vals_line(env):
    return " ".join(str(env[v]) for v in VARS)


def parse_replay(path):
    """replay file: `K ...` lines, each optionally followed by `V N M a b c s t` lines"""
    cases, cur = [], None
    for l in read_replay(path):
        if l.startswith("K "):
            cur = [l, []]
            cases.append(cur)
        elif l.startswith("V ") and cur is not None:
            cur[1].append(dict(zip(VARS, (int(x) for x in l.split()[1:8]))))
    return cases


def loops_from_op(op):
    """inverse of kernel_op (for replays): rebuild Loop objects from the Polish tokens"""
    def unpolish(toks):
        t = toks.pop(0)
        if t == "P":
            return ("P", unpolish(toks))
        if t == "cast":
            return ("cast", unpolish(toks))
        inv = {v: k for k, v in UN_NAME.items()}
        if t in inv:
            return ("un", inv[t], unpolish(toks))
        if t == "?":
            return ("tern", unpolish(toks), unpolish(toks), unpolish(toks))
        if t in BIN_LEVEL:
            a = unpolish(toks)
            return ("bin", t, a, unpolish(toks))
        if t[0] == "v":
            return ("v", t[1:])
        return ("c", int(t[1:]))
    loops = []
    f = op.split()
    for tok in f[2:]:
        p = tok.split(";")
        tile = None
        if p[9] != "-":
            q = p[9].split(":")
            tile = (unpolish(q[0].split(",")), q[1], q[2], q[3])
        loops.append(Loop(p[0], p[1], p[2], unpolish(p[3].split(",")), p[4], p[5], unpolish(p[6].split(",")), p[7],
                          None if p[8] == "-" else unpolish(p[8].split(",")), tile))
    return int(f[1]), loops


MODEL_OF = {"serial": "serial", "openmp": "serial", "cuda": "l32", "hip": "l32", "metal": "l32", "opencl": "l64", "dpcpp": "l64"}


def fmt(ts, limit=14):
    if isinstance(ts, str):
        return ts
    s = " ".join(",".join(str(x) for x in t[1:]) for t in ts[:limit])
    return "[%s%s] (%d)" % (s, " ..." if len(ts) > limit else "", len(ts))


def run_cases(ck, hb, db, cases, label, batch=60, hist=8, text=True):
    """text correspondence (harness lines vs model lines), execution oracle (every backend's complete
    translation run under the launch emulation vs the native sequential loop), numeric correspondence
    (model's seq / serial / launch lists vs the executed ones)."""
    if hb is None or db is None or not cases:
        return {}
    C = ck.cov["counters"]
    hs = [[c.op for c in cases[i:i + hist]] for i in range(0, len(cases), hist)]
    env = dict(HENV)
    env["H_LOOPS_DUMP"] = "1"
    t0 = time.time()
    impl, ora, notes = ck.run_impl(hb, hs, timeout=3000, env=env)
    C["translate_s_" + label] = round(time.time() - t0, 1)
    model = ck.run_model(db, hs, timeout=3000)
    ck.notes += notes[:5]
    flat_impl, flat_model = {}, {}
    for h, im, mo, orc in zip(hs, impl, model, ora):
        for k, op in enumerate(h):
            flat_impl[op] = im[k] if k < len(im) else "MISSING"
            flat_model[op] = mo[k] if k < len(mo) else "MISSING"
        for o in orc:       # crash / sanitizer abort inside the translators
            ck.report_failure(label, h, im, mo, [o])
    ck.cov["evaluations"] += len(cases)
    C["kernels_" + label] = C.get("kernels_" + label, 0) + len(cases)
    # ---- text level (reported last: a concrete failing input from the execution oracle is worth more)
    text_fails = []
    sources = {}
    nerr = 0
    for c in cases:
        line = flat_impl[c.op]
        d = parse_dump(line) if line.startswith("ok") else None
        body = strip_dump(line)
        if d is None or "serial" not in d:
            nerr += 1               # rejected by every translator (compile-time empty range, ...)
        else:
            # translators that threw (launcher backends: "@tile size is undefined!") are simply absent
            sources[c.kid] = {m: s for m, s in d.items() if m != "okl"}
            if " ERR" in body:
                C["partly_rejected_" + label] = C.get("partly_rejected_" + label, 0) + 1
        if text and body != flat_model[c.op] and not getattr(c, "text_exempt", False):
            text_fails.append((c, first_seg_diff(body, flat_model[c.op])))
    C["rejected_by_translator_" + label] = C.get("rejected_by_translator_" + label, 0) + nerr
    # ---- execution
    emu = Emu(ck, label)
    runnable = [c for c in cases if c.kid in sources and c.values]
    results = {}
    parts = [runnable[i:i + batch] for i in range(0, len(runnable), batch)]

    def build(part):
        units = [emu_unit(c.kid, "k%d" % c.kid, c.ref_body(), sources[c.kid], c.extra) for c in part]
        return emu.compile(units, [c.kid for c in part])
    from concurrent.futures import ThreadPoolExecutor
    t_build = time.time()
    with ThreadPoolExecutor(max_workers=int(os.environ.get("VERIF_EMU_JOBS", "3"))) as ex:
        built = list(ex.map(build, parts))
    emu.compile_s = time.time() - t_build       # wall time of the (parallel) g++ runs
    def run_part(part, exe):
        r, rc, se = emu.run(exe, ["%d %s" % (c.kid, vals_line(v)) for c in part for v in c.values])
        results.update(r)
        if rc != 0:
            ck.notes.append("emulation program ended rc=%d: %s" % (rc, se.strip()[-200:]))

    def bisect(part, err):
        """a batch did not compile: retry once (transient failures under load), then halve until the kernels whose
        translation is not valid C++ are isolated — that is itself a failure of the property's observable"""
        exe, err2 = build(part)
        if exe is not None:
            return run_part(part, exe)
        if len(part) == 1:
            c = part[0]
            msg = [l for l in err2.splitlines() if "error" in l][:2]
            ck.report_failure(label, [c.op], ["translated source does not compile: " + " | ".join(msg)[:300]], ["compiles"],
                              ["translated source of kernel %d is not valid C++: %s" % (c.kid, " | ".join(msg)[:300])])
            return
        h = len(part) // 2
        bisect(part[:h], err2)
        bisect(part[h:], err2)

    for part, (exe, err) in zip(parts, built):
        if exe is None:
            bisect(part, err)
        else:
            run_part(part, exe)
    C["emu_compile_s_" + label] = round(emu.compile_s, 1)
    C["emu_run_s_" + label] = round(emu.run_s, 1)
    C["emu_batches_" + label] = emu.nbatch
    # ---- numeric model
    rlines, keys = [], []
    for c in runnable:
        for v in c.values:
            key = (c.kid, tuple(v[x] for x in VARS))
            if key in results and isinstance(results[key].get("ref"), list):
                rlines.append(c.rline(v))
                keys.append((c, v, key))
    mres = ck.run_model(db, [rlines], timeout=3000)[0] if rlines else []
    nonempty = distinct = 0
    seen = set()
    for (c, v, key), mline in zip(keys, mres + ["MISSING"] * (len(keys) - len(mres))):
        res = results[key]
        ref = res["ref"]
        md = c.parse_model(mline)
        ck.cov["evaluations"] += sum(1 for m in MODES if m in res)
        sig = hashlib.sha1(("%s|%s" % (c.op.split(" ", 2)[2], key[1])).encode()).hexdigest()
        if md.get("error") and len(ck.violations) < 10:
            ck.report_failure(label, [c.op, "V " + vals_line(v)], ["(n/a)"], [md["error"]], [])
        if sig not in seen:
            seen.add(sig)
            if ref:
                distinct += 1
        if ref:
            nonempty += 1
        oracles, impl_obs, model_obs = [], [], []
        if md.get("seq") != ref:
            impl_obs.append("native sequential loop: " + fmt(ref))
            model_obs.append("seqIters: " + fmt(md.get("seq", "MISSING")))
        sref = sorted(ref)
        for m in MODES:
            if m not in res:
                continue
            got = sref if res[m] == "=" else res[m]
            if got != sref:
                oracles.append("%s visits %s, the sequential loop %s" % (m, fmt(got), fmt(sref)))
            pred = md.get(MODEL_OF[m])
            if got != pred:
                impl_obs.append("%s: %s" % (m, fmt(got)))
                model_obs.append("%s: %s" % (m, fmt(pred if pred is not None else "MISSING")))
        if (oracles or impl_obs) and len(ck.violations) < 8:
            ck.report_failure(label, [c.op, "V " + vals_line(v)], impl_obs or ["(as the model)"], model_obs or ["(as the implementation)"],
                              [compress_oracles(oracles)] if oracles else [])
    # ---- declared vs. actual work-group size (a CUDA/HIP launch with more threads per block than
    #      __launch_bounds__, or an OpenCL launch whose local size differs from reqd_work_group_size, fails:
    #      no iteration runs at all on the real device)
    nb = 0
    for c in runnable:
        decl = {}
        for m in ("cuda", "hip"):
            mm = re.search(r"__launch_bounds__\((\d+)\)", sources[c.kid].get(m, ""))
            if mm:
                decl[m] = int(mm.group(1))
        mm = re.search(r"reqd_work_group_size\((\d+),(\d+),(\d+)\)", sources[c.kid].get("opencl", ""))
        if mm:
            decl["opencl"] = tuple(int(x) for x in mm.groups())
        if not decl:
            continue
        nb += 1
        for v in c.values:
            key = (c.kid, tuple(v[x] for x in VARS))
            r_ = results.get(key, {})
            bad = []
            for m, d in decl.items():
                dims = r_.get("%dims " + m)
                if not dims:
                    continue
                if m == "opencl" and tuple(dims) != d:
                    bad.append("opencl: local size %s but the kernel requires reqd_work_group_size%s" % (tuple(dims), d))
                if m != "opencl" and dims[0] * dims[1] * dims[2] > d:
                    bad.append("%s: %d threads per block but the kernel is declared __launch_bounds__(%d)" % (m, dims[0] * dims[1] * dims[2], d))
            if bad and len(ck.violations) < 10:
                ck.report_failure(label, [c.op, "V " + vals_line(v)], ["(launch would fail on the device)"], ["(n/a)"], ["; ".join(bad)])
                break
    C["kernels_with_declared_group_size_" + label] = nb
    C["text_mismatches_" + label] = C.get("text_mismatches_" + label, 0) + len(text_fails)
    for c, (a, b) in text_fails[:3]:
        ck.report_failure(label + "-text", [c.op], [a], [b], [])
    C["value_tuples_" + label] = C.get("value_tuples_" + label, 0) + len(keys)
    C["nonempty_runs_" + label] = C.get("nonempty_runs_" + label, 0) + nonempty
    ck.cov["distinct_nontrivial"] += distinct
    if keys:
        c, v, key = keys[len(keys) // 2]
        ck.cov["samples"].append({"kernel": c.describe(), "values": vals_line(v),
                                  "sequential": fmt(results[key]["ref"]),
                                  "backends": {m: (x if isinstance(x, str) else fmt(x)) for m, x in results[key].items() if m != "ref" and not m.startswith("%")}})
    emu.cleanup()
    # C19: cases with `.bijection = D` ran over all in-range tuples: the executed indices must be exactly 0 .. prod(D)-1
    for c in cases:
        D = getattr(c, "bijection", None)
        if not D:
            continue
        n = 1
        for d in D:
            n *= d
        for m in MODES:
            got = []
            for v in c.values:
                key = (c.kid, tuple(v[x] for x in VARS))
                r_ = results.get(key, {})
                x = r_.get(m)
                if x == "=":
                    x = r_.get("ref")
                if isinstance(x, list) and len(x) == 1:
                    got.append(x[0][1])
            if len(got) == len(c.values) and sorted(got) != list(range(n)) and len(ck.violations) < 10:
                ck.report_failure(label, [c.op], ["%s: indices %s" % (m, sorted(got))], ["a bijection onto [0, %d)" % n],
                                  ["%s: in-range index tuples of @dim%s are not mapped one-to-one onto [0, %d): %s" % (m, tuple(D), n, sorted(got))])
        C["bijection_cases"] = C.get("bijection_cases", 0) + 1
    return results


def compress_oracles(os_):
    """`cuda visits X, ...; hip visits X, ...` -> `cuda,hip visit X ...` (stable text for known-finding regexes)"""
    by = {}
    for o in os_:
        m, _, rest = o.partition(" visits ")
        by.setdefault(rest, []).append(m)
    return "; ".join("%s visit %s" % (",".join(ms), rest) for rest, ms in by.items())


def first_seg_diff(a, b):
    sa, sb = a.split(" @@ "), b.split(" @@ ")
    for i in range(max(len(sa), len(sb))):
        x = sa[i] if i < len(sa) else "<none>"
        y = sb[i] if i < len(sb) else "<none>"
        if x != y:
            return x[:400], y[:400]
    return a[:200], b[:200]
