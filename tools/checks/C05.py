"""C05 — Device memory accounting returns to zero and tracks live allocations."""
from pool_common import *

META = {
    "technique": "Lean 4 invariant proofs over a model of the device byte counters (device::malloc, ~modeBuffer_t, pool buffer replacement) with a ghost trace of every value bytesAllocated takes; differential run of model vs the real device with counter-identity oracles",
    "category": "proof",
    "level_text": "Proof over all finite histories of malloc (with/without source, use_host_pointer, own_host_pointer), clone, wrapMemory, slices, releases and pool operations on up to two pools: memoryAllocated() = bytes of live non-wrapped buffers + sizes of live pool buffers, maxMemoryAllocated() = maximum of every value the counter has taken (ghost trace, including the moment a pool holds two buffers), everything released => 0; tied to the code by regenerated flags and a seeded differential run against the real Serial/OpenMP device.",
    "level_note": "Trusted: Lean kernel; translate/gen_pool.py; the hand-written model OccaModel/Pool.lean (validated by correspondence); Serial/OpenMP only; detach() excluded by the property; one handle per memory object.",
    "design_ref": "DESIGN.md section 4, C03/C04/C05",
}


def main(argv):
    run_pool_check("C05", META, "device", argv, 700, 30000)
