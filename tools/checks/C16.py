"""C16 — The OKL front end reports malformed input instead of crashing.

Two parts (design-notes/C16.md):
  (A) exploration, the failing-input search: harness/fuzz_okl.cpp feeds seeded, grammar-aware mutants of
      the repo's kernels to the real front end with all seven translators under ASan+UBSan, every input
      with a CPU-time limit; coverage-guided when the clang build of /repo is available.  A crash, hang,
      abort, uncaught non-occa exception or sanitizer report is minimised and reported as VIOLATION with
      the input as replay (or KNOWN-FINDING when it matches a recorded defect).
  (B) proof, deliberately thin: Lean theorems about the one self-contained piece modelled with explicit
      traps, tokenContext_t (bracket matching and window navigation), tied to operator.cpp by a
      regenerated table and to tokenContext.cpp by a differential run.
"""
import glob, hashlib, os, re, shutil, subprocess, time
from vlib import *

META = {
    "technique": "seeded grammar-aware mutational fuzzing (coverage-guided through clang inline counters when available) of the real OKL front end with all seven translators under ASan+UBSan, each input in a watched child with a CPU-time limit, delta-debugging of failing inputs; plus Lean 4 theorems for the tokenContext_t bracket-matching / window-navigation core over an operator table regenerated from operator.cpp",
    "category": "exploration",
    "level_text": "Exploration: a seeded fuzz campaign over byte strings derived from the repo's kernels (token/line/byte mutations, unbalanced brackets, deep nesting, attribute misuse, preprocessor directives, unterminated literals, huge literals), every input run through the serial, OpenMP, CUDA, HIP, OpenCL, Metal and DPC++ translators with sanitizers and a time limit; absence of crashes in a run is not a proof.  Proved in Lean only for the modelled tokenContext_t core (setup never traps, unbalanced brackets are reported, every navigation history stays in bounds and terminates).",
    "level_note": "Not modelled and therefore only explored: tokenizer, preprocessor, statement parser, type loaders, attribute transforms, the seven backends' tree surgery, recursion depth.  Crashes found are real failing inputs; crashes not found may exist.  Time limits are CPU time calibrated on the seed corpus at run time (100 x the slowest seed, at least 10 s) and a time-out must repeat alone with three times the limit, so slow-but-finite inputs are not reported as hangs.  UBSan arithmetic reports of the constant folder (signed overflow, shift exponent) are counted, not treated as violations (C14's territory).  Trusted for the proved part: Lean kernel, translate/gen_pairops.py, the hand-written model OccaModel/FrontEnd.lean (validated by the differential run h_tokctx).",
    "design_ref": "DESIGN.md section 4, C16",
}

HERE = os.path.dirname(os.path.abspath(__file__))

# ------------------------------------------------------------------------------------------------
# canonical inputs of every defect found so far (run first on every run).  A defect that is still open in
# the tree under test shows up as KNOWN-FINDING (if listed `known`) or VIOLATION; after its fix the input
# stays here as a regression test.  `div` marks the inputs whose crash site is primitive::div/mod: while
# one of them still crashes the mutator steers around divisions, otherwise divisions are explored too.
CORPUS = [
    ("F17", "div", "#if 1\n#elif 1/0\n#endif\n"),
    ("F18", "div", "#if 0 && 1/0\n#endif\n"),
    ("C16-N01a", "div", "#if 1/0\n#endif\n"),
    ("C16-N01b", "div", "#if 1 % 0\n#endif\n"),
    ("C16-N01c", "div", "#if (-2147483647 - 1) / -1\n#endif\n#if (-9223372036854775807L - 1) % -1\n#endif\n"),
    ("C16-N02", "", "@kernel void k(const int N, float *a) {\n  for (int i = 0; i < N; ++i; @tile(@shared float s[16];, @outer, @inner)) {\n    a[i] = 0;\n  }\n}\n"),
    ("C16-N03a", "", "#include foo\n"),
    ("C16-N03b", "", "#include <abc\n"),
    ("C16-N04a", "", "int x = (double) 1;\n"),
    ("C16-N04b", "", "@kernel void k(float *a) {\n  for (int i = 0; i < 4; ++i; @tile(2, @outer, @inner)) {\n    a[i] = (double) i;\n  }\n}\n"),
    ("C16-N05a", "", "#if)\n"),
    ("C16-N05b", "", "#if 1 ]\n#endif\n"),
    ("C16-N06", "", "#define H(x) # y\nH(1)\n"),
    ("C16-N07", "", "int a;\n#ifndef\nint b;\n#endif\n"),
    ("C16-N11a", "", "typedef struct {\n} mystruct;\ntypedef struct {\n} mystruct;\n"),
    ("C16-N11b", "", "typedef enum { A } E;\ntypedef enum { B } E;\n"),
    ("C16-N12", "", "#if defined(\n"),
    ("C16-N13", "", "while(int=)\n"),
    ("C16-N14", "", "@kernel\nvoid addVectors(union{float;}){@outer  for(int i=0;i<N;i+=BLOCK_SIZE){    @inner\n    for(int j=0; j < BLOCK_SIZE; ++j) {}\n  }\n}\n"),
    ("C16-N15", "", "enum E { A, };\n"),
    ("C16-N16", "", "int x @"),
    ("C16-N17", "", "void f() { foo<<<>>>(1); }\n"),
    ("C16-N18", "", "const (1 +) int x;\n"),
    ("C16-N19", "", "void f() { while (int x :) {} }\n"),
    ("C16-N10", "", "@kernel void k(int *a) {\n  for (int i = 0; i < 1; ++i; @tile(99999999999, @outer, @inner)) {\n    a[i] = 1;\n  }\n}\n"),
    ("C16-N09", "", "#undef __FILE__\nconst char *f = __FILE__;\n"),
    ("C16-N08", "", "@kernel void k(const int N, float *a) {\n  for (int i = 0; i < N; ++i; @tile(16, @outer, @inner)) {\n    a[i] = OCCA_USING_GPU OCCA_USING_GPU\n  }\n}\n"),
]

EXTRA_SEEDS = [
    # redefinition / #undef / use of compiler-defined macros (seeded change C16-m2 freed the predefined macro on
    # #define but kept its entry in the compiler-macro table: use after free on the next use or at clear())
    "#define __LINE__ 7\n#undef __LINE__\nconst int a = __LINE__;\n#define OKL_VERSION 3\nconst int b = OKL_VERSION;\n#undef OKL_VERSION\n#define __OKL__ 2\n#if __OKL__\nconst int c = 1;\n#endif\n@kernel void k(const int N, int *x) {\n  for (int i = 0; i < N; ++i; @tile(4, @outer, @inner)) { x[i] = a + b + c + __COUNTER__; }\n}\n",
    "#define not 1\n#define __FILE__ \"f\"\nconst char *f = __FILE__;\n#define __DATE__ 0\n#undef __DATE__\n#define __DATE__ 1\nconst int d = __DATE__;\n",
    # `continue` inside a `switch`: directly in an OKL loop (rejected since F61) and inside a sequential loop (valid);
    # validation must terminate on both (seeded change C16-m1 made the ancestor walk spin on the first)
    "@kernel void k(const int N, int *a) {\n  for (int o = 0; o < N; ++o; @outer) {\n    for (int i = 0; i < 4; ++i; @inner) {\n      switch (i) { case 0: continue; default: break; }\n      a[o * 4 + i] = i;\n    }\n  }\n}\n",
    "@kernel void k(const int N, int *a) {\n  for (int o = 0; o < N; ++o; @outer) {\n    for (int i = 0; i < 4; ++i; @inner) {\n      for (int j = 0; j < 3; ++j) {\n        switch (j) { case 1: continue; default: break; }\n        a[o * 4 + i] += j;\n      }\n    }\n  }\n}\n",
    # every OKL attribute at least once, in valid positions
    "@kernel void k(const int N, float *a @restrict, const float *b) {\n  for (int o = 0; o < N; o += 16; @outer(0)) {\n    @shared float s[16];\n    @exclusive int e;\n    for (int i = o; i < o + 16; ++i; @inner(0)) {\n      e = i;\n      s[i - o] = b[i];\n    }\n    @barrier();\n    for (int i = o; i < o + 16; ++i; @inner(0)) {\n      if (e < N) { @atomic a[0] += s[i - o]; }\n    }\n  }\n}\n",
    "typedef float mat @dim(4, 4);\n@kernel void k(const int N, mat *m, int *x @dim(N, N) @dimOrder(1, 0)) {\n  for (int j = 0; j < N; ++j; @tile(8, @outer, @inner, check=false)) {\n    for (int i = 0; i < N; ++i; @tile(4, @outer(1), @inner(1))) {\n      x(i, j) = i + j;\n    }\n  }\n}\n",
    "#define BLOCK 8\n#if defined(BLOCK) && (BLOCK > 4)\n#  define SZ (BLOCK * 2)\n#else\n#  define SZ 4\n#endif\nstruct vec3 { float x, y, z; };\nenum color { red, green = 3, blue };\nstatic inline float sq(const float v) { return v * v; }\n@kernel void k(const int N, struct vec3 *p, float *out) {\n  for (int g = 0; g < N; g += SZ; @outer) {\n    for (int i = g; i < g + SZ; ++i; @inner) {\n      float acc = 0;\n      for (int q = 0; q < 3; ++q) { acc += sq(p[i].x) + (q ? p[i].y : p[i].z); }\n      switch (i % 3) { case 0: out[i] = acc; break; default: out[i] = -acc; }\n      while (acc > 1.0f) { acc /= 2; }\n      do { acc += 1; } while (acc < 0);\n    }\n  }\n}\n",
    "@kernel void k(const int N, const int M, double *a) {\n  @max_inner_dims(8, 8) for (int j = 0; j < M; ++j; @outer) {\n    for (int i = 0; i < N; ++i; @outer) {\n      for (int jj = 0; jj < 8; ++jj; @inner) {\n        @simd_length(8) for (int ii = 0; ii < 8; ++ii; @inner) {\n          a[(j * 8 + jj) * N + i * 8 + ii] = 1e-3 * 0x10 + 'c' + sizeof(double);\n        }\n      }\n    }\n  }\n}\n",
    "#define CAT(a, b) a ## b\n#define STR(x) #x\n#define VA(fmt, ...) fmt __VA_ARGS__\n#include \"inc.h\"\nconst char *CAT(na, me) = STR(hello world) \"tail\";\n#ifdef UNDEFINED\n#error not here\n#elif 1\nint VA(x, = 3);\n#endif\n#line 100 \"other.okl\"\n#pragma omp parallel\n#undef CAT\n",
    "@kernel void k(int N, int *a) {\n  for (int i = 0; i < N; ++i; @outer) {\n    for (int j = 0; j < 4; ++j; @inner) { a[i] = j; }\n    @nobarrier for (int j = 0; j < 4; ++j; @inner) { a[i] += j; }\n    for (int j = 0; j < 4; ++j; @inner) { a[i] -= j; }\n  }\n}\n@kernel void k2(int N, int *a) {\n  for (int i = 0; i < N; ++i; @tile(16, @outer, @inner)) { a[i] = (int) (a[i] * 2.5f) << 1; }\n}\n",
]

INCLUDES = {
    "inc.h": "#ifndef INC_H\n#define INC_H\n#define FROM_INC 3\ninline int fromInc(int x) { return x + FROM_INC; }\n#endif\n",
    "self.h": "int selfHeader;\n#include \"self.h\"\n",
    "deep.h": "#define DEEP(x) DEEP2(x) DEEP2(x)\n#define DEEP2(x) DEEP3(x) DEEP3(x)\n#define DEEP3(x) x x\nint deepHeader = DEEP(1 +) 0;\n",
}


def unescape_c(s):
    out = []
    i = 0
    simple = {"n": "\n", "t": "\t", "\\": "\\", '"': '"', "'": "'", "0": "", "r": "\r"}
    while i < len(s):
        if s[i] == "\\" and i + 1 < len(s):
            out.append(simple.get(s[i + 1], s[i + 1]))
            i += 2
        else:
            out.append(s[i])
            i += 1
    return "".join(out)


def embedded_kernels():
    """string arguments of parseSource / parseBadSource / parseAndPrintSource / setStatement ... in the repo's tests"""
    found = []
    for f in sorted(glob.glob(os.path.join(REPO, "tests/src/internal/lang/**/*.cpp"), recursive=True)):
        src = open(f, errors="replace").read()
        for m in re.finditer(r"\b(?:parse\w*Source|setStatement|testStatementPeek|setSource|setStream|parseSource)\s*\(\s*((?:\"(?:[^\"\\\n]|\\.)*\"\s*)+)", src):
            lits = re.findall(r"\"((?:[^\"\\\n]|\\.)*)\"", m.group(1))
            text = unescape_c("".join(lits))
            if 3 <= len(text) <= 4000:
                found.append(text)
    return found


def build_corpus(ck, base):
    d = os.path.join(base, "corpus")
    inc = os.path.join(base, "cwd")
    shutil.rmtree(d, ignore_errors=True)
    os.makedirs(d)
    os.makedirs(inc, exist_ok=True)
    for k, v in INCLUDES.items():
        open(os.path.join(inc, k), "w").write(v)
    texts = []
    files = sorted(glob.glob(os.path.join(REPO, "examples/**/*.okl"), recursive=True)) + \
        sorted(glob.glob(os.path.join(REPO, "tests/files/*.okl"))) + \
        [os.path.join(REPO, "tests/files/preprocessor.hpp"), os.path.join(REPO, "tests/files/cleanTest.c")]
    for f in files:
        if os.path.exists(f):
            texts.append(open(f, errors="replace").read())
    n_files = len(texts)
    emb = embedded_kernels()
    # the embedded snippets are many and tiny: group them so that the corpus stays a few dozen entries
    seen = set()
    uniq = [t for t in emb if not (t in seen or seen.add(t))]
    step = max(1, len(uniq) // 40)
    texts += uniq[::step][:40]
    texts += EXTRA_SEEDS
    seen = set()
    n = 0
    for t in texts:
        h = hashlib.sha1(t.encode(errors="replace")).hexdigest()[:12]
        if h in seen:
            continue
        seen.add(h)
        with open(os.path.join(d, "seed-%03d-%s" % (n, h)), "w", errors="replace") as f:
            f.write(t)
        n += 1
    ck.cov["counters"]["corpus_seeds"] = n
    ck.cov["counters"]["corpus_files"] = n_files
    ck.cov["counters"]["corpus_embedded_test_kernels"] = len(uniq)
    return d, inc


def build_fuzz_variant(ck):
    """clang-14 build of /repo with ASan+UBSan and -fsanitize=fuzzer-no-link (inline 8-bit counters)"""
    if not shutil.which("clang++-14"):
        return None
    d = os.path.join(BUILD, "fuzz")
    with Lock("fuzzbuild"):
        if not os.path.exists(os.path.join(d, "build.ninja")):
            flags = "-fsanitize=fuzzer-no-link,address,undefined -fno-omit-frame-pointer -O1"
            rc, so, se = sh(["cmake", "-G", "Ninja", "-S", REPO, "-B", d, "-DCMAKE_BUILD_TYPE=RelWithDebInfo",
                             "-DCMAKE_CXX_COMPILER=clang++-14", "-DCMAKE_C_COMPILER=clang-14",
                             "-DCMAKE_CXX_FLAGS=-Wno-error -DLIBOCCA_OCCA_VERIF " + flags, "-DCMAKE_C_FLAGS=" + flags,
                             "-DOCCA_ENABLE_TESTS=OFF", "-DOCCA_ENABLE_EXAMPLES=OFF", "-DOCCA_ENABLE_CUDA=OFF",
                             "-DOCCA_ENABLE_HIP=OFF", "-DOCCA_ENABLE_OPENCL=OFF", "-DOCCA_ENABLE_METAL=OFF",
                             "-DOCCA_ENABLE_DPCPP=OFF", "-DOCCA_ENABLE_OPENMP=OFF", "-DOCCA_ENABLE_FORTRAN=OFF"], timeout=3600)
            if rc != 0:
                log("clang configure failed:", (so + se)[-800:])
                shutil.rmtree(d, ignore_errors=True)
                return None
        rc, so, se = sh(["cmake", "--build", d, "-j" + os.environ.get("VERIF_JOBS", "8")], timeout=7200)
        if rc != 0:
            log("clang build failed:", (so + se)[-1500:])
            return None
    return d


def compile_harness(ck, bdir, name="fuzz_okl"):
    """harness/<name>.cpp compiled with clang-14 against the clang build of /repo (the only build this check needs)"""
    src = os.path.join(VERIF, "harness", name + ".cpp")
    out = os.path.join(BUILD, "bin", name + "-fuzz")
    dep = out + ".d"
    with Lock("h_" + name + "_fuzz"):
        need = True
        if os.path.exists(out) and os.path.exists(dep):
            need = False
            t = os.path.getmtime(out)
            deps = open(dep).read().replace("\\\n", " ").split(":", 1)[-1].split()
            for x in deps + [os.path.join(bdir, "lib", "libocca.so")]:
                if not os.path.exists(x) or os.path.getmtime(x) > t:
                    need = True
                    break
        if need:
            cmd = ["clang++-14", "-std=c++17", "-g", "-O1", "-fno-omit-frame-pointer", "-DLIBOCCA_OCCA_VERIF",
                   "-fsanitize=address,undefined", "-MMD", "-MF", dep, "-I%s/include" % REPO, "-I%s/src" % REPO,
                   "-I%s/include" % bdir, "-I" + os.path.join(VERIF, "harness"), src, "-o", out, "-L%s/lib" % bdir, "-locca", "-Wl,-rpath,%s/lib" % bdir,
                   "-ldl", "-lpthread"]
            rc, so, se = sh(cmd, timeout=1800)
            if rc != 0:
                log("clang harness compile failed:", se[-1500:])
                return None
    return out


def to_text(b):
    return b.decode("latin-1")


def replay_text(data):
    """replay file body: the raw input when it is printable, else a hex line"""
    if all((32 <= c < 127) or c in (9, 10) for c in data) and not data.startswith(b"#!hex:") and b"\n##" not in b"\n" + data:
        return data.decode("ascii")
    return "#!hex:" + data.hex()


def read_input_file(path):
    raw = open(path, "rb").read()
    lines = raw.split(b"\n")
    while lines and lines[0].startswith(b"## "):
        lines.pop(0)
    body = b"\n".join(lines)
    if body.startswith(b"#!hex:"):
        return bytes.fromhex(body[6:].strip().decode())
    # oracle_violation appends one newline after the replay text
    if body.endswith(b"\n\n") or (lines and raw.startswith(b"## ")):
        body = body[:-1] if body.endswith(b"\n") else body
    return body


class Fuzzer:
    def __init__(self, ck, binary, cwd, guided):
        self.ck, self.bin, self.cwd, self.guided = ck, binary, cwd, guided
        self.env = dict(os.environ)
        self.env.update({"OCCA_DIR": REPO, "OCCA_CACHE_DIR": os.path.join(BUILD, "occa_cache"), "OCCA_VERBOSE": "0",
                         "FUZZ_TMP": os.path.join(BUILD, "tmp")})
        self.env.pop("ASAN_OPTIONS", None)
        self.env.pop("UBSAN_OPTIONS", None)

    def run_files(self, files, cpu=None, timeout=7200):
        """-> {file: (status, sig, masks, detail)}"""
        cmd = [self.bin, "run"] + (["--cpu", str(cpu)] if cpu else []) + list(files)
        p = subprocess.run(cmd, capture_output=True, cwd=self.cwd, env=self.env, timeout=timeout)
        res = {}
        for l in p.stdout.decode("latin-1").splitlines():
            if l.startswith("#"):
                continue
            t = l.split("\t")
            if len(t) >= 4:
                res[t[0]] = (t[1], t[2], t[3], t[4] if len(t) > 4 else "")
        return res

    def minimise(self, path, sig, out, budget, cpu=None):
        cmd = [self.bin, "min", "--sig", sig, "--budget", str(budget)] + (["--cpu", str(cpu)] if cpu else []) + [path, out]
        try:
            p = subprocess.run(cmd, capture_output=True, cwd=self.cwd, env=self.env, timeout=6 * 3600)
        except subprocess.TimeoutExpired:
            return False
        return p.returncode == 0 and os.path.exists(out)

    def campaign(self, corpus, outdir, seeds, secs, extra=(), iters=None):
        procs = []
        for i, sd in enumerate(seeds):
            od = os.path.join(outdir, "w%d" % i)
            os.makedirs(od, exist_ok=True)
            budget = ["--iters", str(iters)] if iters is not None else ["--secs", str(secs)]
            cmd = [self.bin, "fuzz", "--seed", str(sd), "--corpus", corpus, "--out", od] + budget + list(extra)
            procs.append((od, subprocess.Popen(cmd, stdout=open(os.path.join(od, "log.txt"), "wb"), stderr=subprocess.DEVNULL,
                                               cwd=self.cwd, env=self.env)))
        for od, p in procs:
            p.wait()
        return [od for od, _ in procs]


def parse_worker_log(path):
    st, fails, sigs, benign, samples, calib, flaky = {}, [], {}, {}, [], None, []
    for l in open(path, "rb").read().decode("latin-1").splitlines():
        t = l.split("\t")
        if t[0] == "STATS":
            for kv in t[1:]:
                k, _, v = kv.partition("=")
                try:
                    st[k] = float(v) if "." in v else int(v)
                except ValueError:
                    pass
        elif t[0] == "FAIL" and len(t) >= 4:
            fails.append((t[1], t[2], t[3], t[4] if len(t) > 4 else ""))
        elif t[0] == "SIG" and len(t) >= 3:
            sigs[t[2]] = int(t[1])
        elif t[0] == "BENIGN" and len(t) >= 3:
            benign[t[2]] = int(t[1])
        elif t[0] == "SAMPLE" and len(t) >= 2:
            samples.append(t[1])
        elif t[0] == "CALIBRATION":
            calib = l
        elif t[0] == "FLAKY":
            flaky.append(l)
    return st, fails, sigs, benign, samples, calib, flaky


def main(argv):
    ck = Check("C16", argv)
    ck.level = "exploration"
    ck.rule = ("inputs are byte strings: the repo's .okl files, the kernels embedded in tests/src/internal/lang, hand-written "
               "kernels using every OKL attribute, and seeded mutants of them (token delete/duplicate/swap/insert from a "
               "dictionary, attribute misuse, unbalanced brackets, nesting up to 30000 levels, huge literals, preprocessor "
               "lines, line and byte edits, truncation, splicing; inputs that add coverage join the pool); each is run "
               "through all seven translators.  distinct = FNV-1a of the bytes within a worker; non-trivial = the tokenizer, "
               "preprocessor and bracket matching reported no error for at least one translator, i.e. the statement parser "
               "ran (seeds counted once)")
    ck.assumptions = ["NUL ends the input (parseSource takes a C string)",
                      "time limits are CPU seconds calibrated at run time on the seed corpus",
                      "operator tokens refer to operator objects of namespace op (regenerated table) — for the Lean part"]
    # ---- (B) proof re-check
    parts = os.environ.get("VERIF_C16_PARTS", "proof,tokctx,fuzz").split(",")    # development aid; default: everything
    ck.translate(["gen_pairops"])
    if "proof" in parts:
        ck.prove("C16")
    bdir = build_fuzz_variant(ck)
    if "tokctx" in parts:
        tokctx_correspondence(ck, bdir)
    if ck.replay and ck.replay.endswith(".ops"):
        # a tokenContext history (replayed by tokctx_correspondence above), not an OKL input
        ck.cov["distinct_nontrivial"] = max(ck.cov["distinct_nontrivial"], 2)
        ck.finish(META["level_text"])
    if "fuzz" not in parts:
        ck.notes.append("VERIF_C16_PARTS=%s: the fuzz campaign was skipped" % ",".join(parts))
        ck.cov["distinct_nontrivial"] = max(ck.cov["distinct_nontrivial"], 2)
        ck.cov["evaluations"] = max(ck.cov["evaluations"], 1)
        ck.finish(META["level_text"])

    # ---- (A) exploration
    base = os.path.join(BUILD, "tmp", "C16-%d" % os.getpid())
    os.makedirs(base, exist_ok=True)
    corpus, cwd = build_corpus(ck, base)
    guided = True
    binary = None
    if bdir:
        binary = compile_harness(ck, bdir)
    if not binary:
        guided = False
        ck.notes.append("clang-14 coverage build unavailable: fell back to the g++ ASan build without coverage feedback")
        binary = ck.harness("fuzz_okl")
    if not binary:
        ck.finish(META["level_text"])
    ck.trusted.append("harness/fuzz_okl.cpp (child supervision, classification of sanitizer reports)")
    ck.cov["counters"]["coverage_guided"] = 1 if guided else 0
    fz = Fuzzer(ck, binary, cwd, guided)
    long_cpu = 900      # for confirmation / canonical replays: far above anything a finite parse needs

    def report(sig, status, detail, data, where):
        what = "%s: %s | %s" % (status, sig, detail[:300])
        text = replay_text(data)
        ck.oracle_violation(what, text, name="okl")
        return what

    if ck.replay:
        data = read_input_file(ck.replay)
        p = os.path.join(base, "replay-input")
        open(p, "wb").write(data)
        r = fz.run_files([p], cpu=long_cpu)
        st = r.get(p, ("unreadable", "-", "", ""))
        ck.cov["evaluations"] += 1
        ck.cov["distinct_nontrivial"] += 2      # schema minimum; a replay is one input
        ck.cov["samples"].append({"replay": to_text(data)[:400], "status": st[0], "signature": st[1]})
        if st[0] != "ok":
            report(st[1], st[0], st[3], data, "replay")
        shutil.rmtree(base, ignore_errors=True)
        ck.finish(META["level_text"])

    # 1. canonical inputs of recorded defects
    canon = []
    for fid, tag, text in CORPUS:
        p = os.path.join(base, "canon-" + fid)
        open(p, "wb").write(text.encode("latin-1"))
        canon.append((fid, tag, p, text))
    steer = False
    if canon:
        r = fz.run_files([p for _, _, p, _ in canon], cpu=long_cpu)
        still = []
        for fid, tag, p, text in canon:
            st = r.get(p, ("unreadable", "-", "", ""))
            ck.cov["evaluations"] += 1
            if st[0] != "ok":
                still.append(fid)
                steer = steer or tag == "div"
                report(st[1], st[0], "[canonical input of %s] %s" % (fid, st[3]), text.encode("latin-1"), "canonical " + fid)
        ck.cov["counters"]["canonical_inputs"] = len(canon)
        ck.cov["counters"]["canonical_inputs_still_failing"] = still
    ck.cov["counters"]["steering_around_division"] = 1 if steer else 0

    # 2. the campaign
    # quick tier: the regression part (seed corpus through all seven translators + canonical inputs above) plus a
    #   SMALL, MILD campaign: a fixed number of mutants per worker, one small edit each (--mild), so that the tier
    #   is a regression check whose verdict does not depend on the speed of the machine;
    # thorough tier: the aggressive, coverage-guided, time-budgeted campaign (the actual bug hunt).
    workers = int(os.environ.get("VERIF_FUZZ_WORKERS", str(min(16, os.cpu_count() or 4))))
    secs = int(os.environ.get("VERIF_FUZZ_SECS", "1200"))
    iters = None
    extra = [] if steer else ["--raw"]
    if ck.tier == "quick" and "VERIF_FUZZ_SECS" not in os.environ:
        iters = int(os.environ.get("VERIF_FUZZ_ITERS", "12"))
        extra.append("--mild")
    ck.cov["counters"]["campaign_mode"] = ("mild, %d mutants per worker" % iters) if iters is not None else ("aggressive, %d s per worker" % secs)
    seeds = [ck.rng.getrandbits(48) for _ in range(workers)]
    outdir = os.path.join(base, "out")
    t0 = time.time()
    wdirs = fz.campaign(corpus, outdir, seeds, secs, extra=extra, iters=iters)
    ck.cov["counters"]["fuzz_wall_s"] = int(time.time() - t0)
    ck.cov["counters"]["workers"] = workers
    tot = {}
    fails = []
    sigs = {}
    benign = {}
    samples = []
    seed_reached = 0
    cov_edges = 0
    for wd in wdirs:
        st, fl, sg, bn, sm, calib, flaky = parse_worker_log(os.path.join(wd, "log.txt"))
        if not st:
            ck.problems.append(("tie", "fuzz worker produced no statistics (%s)" % wd))
            continue
        for k, v in st.items():
            if isinstance(v, (int, float)) and k not in ("seed_reached", "seeds", "cov_edges", "cov_total", "cpu_limit", "secs"):
                tot[k] = tot.get(k, 0) + v
        seed_reached = max(seed_reached, st.get("seed_reached", 0))
        cov_edges = max(cov_edges, st.get("cov_edges", 0))
        tot["cov_total"] = st.get("cov_total", 0)
        tot["cpu_limit"] = max(tot.get("cpu_limit", 0), st.get("cpu_limit", 0))
        tot["seeds"] = st.get("seeds", 0)
        fails += fl
        for k, v in sg.items():
            sigs[k] = sigs.get(k, 0) + v
        for k, v in bn.items():
            benign[k] = benign.get(k, 0) + v
        samples += sm[:2]
        if calib and "calibration" not in ck.cov["counters"]:
            ck.cov["counters"]["calibration"] = calib.replace("\t", " ")
        for f in flaky[:3]:
            ck.notes.append("unconfirmed candidate (not reported): " + f.replace("\t", " ")[:200])
    nseeds = int(tot.get("seeds", 0))
    execs = int(tot.get("execs", 0))
    reached = int(tot.get("reached", 0))
    ck.cov["evaluations"] += execs
    # seeds are run by every worker: count them once
    nt = reached - seed_reached * max(0, len(wdirs) - 1)
    ck.cov["distinct_nontrivial"] += max(0, nt)
    for k in ("distinct", "accepted_all", "accepted_some", "rejected", "threw", "crashes", "timeouts", "candidates", "flaky",
              "corpus_added", "acc_serial", "acc_openmp", "acc_cuda", "acc_hip", "acc_opencl", "acc_metal", "acc_dpcpp"):
        ck.cov["counters"]["fuzz_" + k] = int(tot.get(k, 0))
    ck.cov["counters"]["coverage_edges_best_worker"] = int(cov_edges)
    ck.cov["counters"]["coverage_edges_total"] = int(tot.get("cov_total", 0))
    ck.cov["counters"]["cpu_limit_s"] = int(tot.get("cpu_limit", 0))
    ck.cov["counters"]["failure_signatures"] = dict(sorted(sigs.items()))
    ck.cov["counters"]["benign_ubsan_arithmetic_reports"] = dict(sorted(benign.items()))
    for s in samples[:6]:
        ck.cov["samples"].append({"input": s})

    # 3. triage: per signature the smallest input; known -> KNOWN-FINDING; else minimise and report
    by_sig = {}
    for path, status, sig, detail in fails:
        if not os.path.exists(path):
            continue
        sz = os.path.getsize(path)
        if sig not in by_sig or sz < by_sig[sig][0]:
            by_sig[sig] = (sz, path, status, detail)
    budget = 150 if ck.tier == "quick" else 600
    for sig, (sz, path, status, detail) in sorted(by_sig.items()):
        data = open(path, "rb").read()
        what = "%s: %s | %s" % (status, sig, detail[:300])
        if ck._known(what, to_text(data)):
            continue
        mp = path + ".min"
        cpu = int(tot.get("cpu_limit", 0)) * 3 if status == "timeout" else None
        if len(ck.violations) < 6 and fz.minimise(path, sig, mp, budget, cpu=cpu):
            data = open(mp, "rb").read()
        report(sig, status, detail, data, "campaign")
    if not os.environ.get("VERIF_KEEP_TMP"):
        shutil.rmtree(base, ignore_errors=True)
    ck.finish(META["level_text"])


# ------------------------------------------------------------------------------------------------
# differential run of the tokenContext_t model (lean --run; no compiled driver is registered for it)
def gen_tokctx_history(r):
    kinds = "oooc(){}[]<>;;,+"
    k = r.random()
    n = r.choice([0, 1, 2, 3, 5, 8, 13, 30]) if r.random() < 0.6 else r.randint(0, 60)
    if k < 0.45:
        # balanced by construction, then maybe damaged
        toks = []
        stack = []
        for _ in range(n):
            q = r.random()
            if q < 0.25:
                b = r.choice("({[<")
                toks.append(b)
                stack.append({"(": ")", "{": "}", "[": "]", "<": ">"}[b])
            elif q < 0.5 and stack:
                toks.append(stack.pop())
            else:
                toks.append(r.choice("oooc;;,+"))
        while stack:
            toks.append(stack.pop())
        if r.random() < 0.35 and toks:
            i = r.randrange(len(toks))
            if r.random() < 0.5:
                toks.pop(i)
            else:
                toks[i] = r.choice("(){}[]<>")
    else:
        toks = [r.choice(kinds) for _ in range(n)]
    h = ["T " + " ".join(toks) if toks else "T"]
    m = len(toks)

    def ri():
        return r.choice([-2, -1, 0, 1, 2, m - 1, m, m + 1, r.randint(-3, m + 3)])
    for _ in range(r.randint(2, 16)):
        q = r.random()
        if q < 0.10:
            h.append("set %d" % ri())
        elif q < 0.20:
            h.append("set2 %d %d" % (ri(), ri()))
        elif q < 0.26:
            h.append("push")
        elif q < 0.32:
            h.append("push1 %d" % ri())
        elif q < 0.42:
            h.append("push2 %d %d" % (ri(), ri()))
        elif q < 0.52:
            h.append("pop")
        elif q < 0.58:
            h.append("popskip")
        elif q < 0.68:
            h.append("pushpair")
        elif q < 0.76:
            h.append("at %d" % ri())
        elif q < 0.80:
            h.append("end")
        elif q < 0.86:
            h.append("closing")
        elif q < 0.90:
            h.append("closingtok")
        elif q < 0.95:
            h.append("next " + r.choice([";", ",", "(", ")"]))
        elif q < 0.98:
            h.append("printtok %d" % r.choice([0, 1]))
        else:
            h.append("state")
    h.append("state")
    return h


TOKCTX_CORPUS = [
    ["T", "state", "pop", "end", "at 0", "closing", "next ;"],
    ["T o ( c [ ] ; ) ;", "state", "push2 1 100", "set -3", "at 7", "pop", "pop", "next ;", "pushpair", "closingtok", "popskip", "state"],
    ["T o (", "state", "closing"],                     # unclosed: error reported
    ["T ( ]", "state"],                                 # mismatch
    ["T )", "state"],                                   # no opener
    ["T ( ( ) ) < > { [ ] }", "state", "pushpair", "pushpair", "state", "pop", "popskip", "state", "next ;"],
    ["T c c c", "state", "at 0", "end", "printtok 0", "printtok 1"],
    ["T o ; o", "printtok 0", "printtok 1", "set 5", "printtok 0", "printtok 1", "state"],
    ["T o ; ( ; ) ; o", "next ;", "set 2", "next ;", "closing", "pushpair", "next ;", "pop", "set 4", "next ;", "state"],
]


def tokctx_correspondence(ck, bdir):
    hb = compile_harness(ck, bdir, "h_tokctx") if bdir else None
    if hb is None:
        hb = ck.harness("h_tokctx")
    if hb is None:
        return
    # model side: interpreted (lake env lean --run); the modules it imports were built by ck.prove
    wrapper = os.path.join(BUILD, "bin", "drv_frontend_%d.sh" % os.getpid())
    with open(wrapper, "w") as f:
        f.write("#!/bin/sh\ncd %s && exec lake env lean --run Driver/FrontEnd.lean\n" % LEAN)
    os.chmod(wrapper, 0o755)
    try:
        if ck.replay and ck.replay.endswith(".ops"):
            hs = [read_replay(ck.replay)]
        elif ck.replay:
            return
        else:
            n = 150 if ck.tier == "quick" else 3000
            hs = TOKCTX_CORPUS + [gen_tokctx_history(ck.rng) for _ in range(n)]
        with Lock("lake"):
            sh(["lake", "build", "OccaModel.FrontEnd", "OccaModel.Proto"], cwd=LEAN, timeout=3000)
        ev0, nt0 = ck.cov["evaluations"], ck.cov["distinct_nontrivial"]
        ck.correspond(hb, wrapper, hs, label="tokenContext", ubsan_is_violation=r"tokenContext\.(cpp|hpp)", timeout=1800)
        ck.cov["counters"]["tokctx_histories"] = ck.cov["evaluations"] - ev0
        ck.cov["counters"]["tokctx_distinct_nontrivial"] = ck.cov["distinct_nontrivial"] - nt0
    finally:
        try:
            os.unlink(wrapper)
        except OSError:
            pass
