"""Generators shared by the JSON checks C24, C25, C26: tree scripts (see lean/Driver/Json.lean), byte
strings, numbers of every primitive type, JSON text in the dialect json::load accepts.
All randomness comes from the `random.Random` passed in (ck.rng)."""
import struct


def hx(b):
    return b.hex() if b else "-"


SPECIAL = [0x22, 0x5c, 0x2f, 0x0a, 0x09, 0x08, 0x0c, 0x0d, 0x27, 0x3a, 0x2c, 0x7b, 0x7d, 0x5b, 0x5d, 0x20, 0x75]
UTF8 = ["é", "ß", "→", "日本", "😀", "́"]


def rbytes(r, maxlen=10, nul=False):
    """arbitrary bytes (1..255, 0 only if `nul`), the characters the dumper/parser treat specially boosted"""
    n = r.choice([0, 1, 1, 2, 3, 5, maxlen]) if r.random() < 0.6 else r.randint(0, maxlen)
    out = bytearray()
    while len(out) < n:
        k = r.random()
        if k < 0.35:
            out.append(r.choice(SPECIAL))
        elif k < 0.45:
            out += r.choice(UTF8).encode()
        elif k < 0.50:
            out += b"\\u" + bytes(r.choice(b"0123456789abcdefABCDEFg") for _ in range(r.choice([4, 4, 3])))
        elif k < 0.75:
            out.append(r.randint(0x61, 0x7a))
        else:
            out.append(r.randint(0 if nul else 1, 255))
    if nul and r.random() < 0.5:
        out.insert(r.randint(0, len(out)), 0)
    return bytes(out)


INT_TYPES = {"i8": (-2**7, 2**7 - 1), "u8": (0, 2**8 - 1), "i16": (-2**15, 2**15 - 1), "u16": (0, 2**16 - 1),
             "i32": (-2**31, 2**31 - 1), "u32": (0, 2**32 - 1), "i64": (-2**63, 2**63 - 1), "u64": (0, 2**64 - 1)}

NICE_F64 = [0.0, -0.0, 1.0, -1.0, 0.1, 1e10, 1e-7, 1.5, 3.141592653589793, 1.7976931348623157e308, 5e-324,
            2.2250738585072014e-308, 123456789.125, 1e22, 1e23, 9007199254740993.0, 0.3, 2.5e-5]
NICE_F32 = [0.0, -0.0, 1.0, 0.1, 16777217.0, 3.4028234663852886e38, 1.401298464324817e-45, 1e-7, 65504.0, 0.3]

PARSED = [b"12", b"-7", b"0x1F", b"0b101", b"1.5", b"2e3", b"1e-3f", b"5UL", b"07", b"-0", b"1.25L", b"0",
          b"4294967296", b"-0x10", b"1E+2", b"2147483648", b"012", b"3.0f", b"10u", b"0XfF", b"-  5", b"00", b"1.", b"0.5e1", b"- 2.5", b"-  1e2f", b"-\t0.5"]


def rint(r, ty):
    lo, hi = INT_TYPES[ty]
    k = r.random()
    if k < 0.35:
        return r.choice([lo, hi, 0, 1, hi - 1, lo + 1 if lo < 0 else 2, min(hi, 2**31 - 1), min(hi, 2**31), min(hi, 2**63)])
    if k < 0.6:
        return r.randint(max(lo, -1000), min(hi, 1000))
    return r.randint(lo, hi)


def f64bits(x):
    return struct.unpack("<Q", struct.pack("<d", x))[0]


def f32bits(x):
    return struct.unpack("<I", struct.pack("<f", x))[0]


def rnum(r, naninf=False, parsed=True):
    k = r.random()
    if k < 0.12:
        return r.choice(["T", "F"])
    if k < 0.62:
        ty = r.choice(list(INT_TYPES))
        return "%s:%d" % (ty, rint(r, ty))
    if k < 0.78:
        if r.random() < 0.5:
            b = f64bits(r.choice(NICE_F64))
        else:
            b = r.getrandbits(64)
        if (b >> 52) & 0x7ff == 0x7ff and not naninf:
            b &= ~(1 << 62)
        return "f64:%016x" % b
    if k < 0.92 or not parsed:
        if r.random() < 0.5:
            b = f32bits(r.choice(NICE_F32))
        else:
            b = r.getrandbits(32)
        if (b >> 23) & 0xff == 0xff and not naninf:
            b &= ~(1 << 30)
        return "f32:%08x" % b
    return "P:" + hx(r.choice(PARSED))


def rnaninf(r):
    return r.choice(["f64:7ff0000000000000", "f64:fff0000000000000", "f64:7ff8000000000000", "f32:7f800000",
                     "f32:ffc00000", "f32:7fc00000", "f64:fff8000000000001"])


class TreeOpts:
    def __init__(self, none=0.0, nul=False, naninf=False, emptykey=False, parsed=True, keys=None, keymax=6, strmax=10,
                 dupkeys=0.1):
        self.none, self.nul, self.naninf, self.emptykey, self.parsed = none, nul, naninf, emptykey, parsed
        self.keys, self.keymax, self.strmax, self.dupkeys = keys, keymax, strmax, dupkeys


def rkey(r, o):
    if o.keys is not None:
        return r.choice(o.keys)
    while True:
        k = rbytes(r, o.keymax, o.nul)
        if k or o.emptykey:
            return k


def rleaf(r, o):
    k = r.random()
    if k < 0.08:
        return "Z"
    if k < 0.08 + o.none:
        return "N"
    if k < 0.5:
        return "S:" + hx(rbytes(r, o.strmax, o.nul))
    if o.naninf and r.random() < 0.3:
        return rnaninf(r)
    return rnum(r, o.naninf, o.parsed)


def rtree(r, depth, width, o):
    """a tree script as a list of tokens"""
    if depth <= 0 or r.random() < 0.3:
        return [rleaf(r, o)]
    n = r.choice([0, 1, 1, 2, 3, width]) if r.random() < 0.7 else r.randint(0, width)
    if r.random() < 0.45:
        out = ["A%d" % n]
        for _ in range(n):
            out += rtree(r, depth - 1, width, o)
        return out
    out = ["O%d" % n]
    prev = []
    for _ in range(n):
        k = r.choice(prev) if prev and r.random() < o.dupkeys else rkey(r, o)
        prev.append(k)
        out += [hx(k)] + rtree(r, depth - 1, width, o)
    return out


def shuffled(r, toks):
    """the same value with the members of every object listed in another order (duplicates kept in relative
    order so that 'later wins' is preserved)"""
    def parse(i):
        t = toks[i]
        if t[0] == "A" and t[1:].isdigit():
            n = int(t[1:]); i += 1; kids = []
            for _ in range(n):
                k, i = parse(i); kids.append(k)
            return ("A", kids), i
        if t[0] == "O" and t[1:].isdigit():
            n = int(t[1:]); i += 1; kids = []
            for _ in range(n):
                key = toks[i]; v, i = parse(i + 1); kids.append((key, v))
            return ("O", kids), i
        return ("L", t), i + 1

    def emit(n):
        if n[0] == "L":
            return [n[1]]
        if n[0] == "A":
            out = ["A%d" % len(n[1])]
            for k in n[1]:
                out += emit(k)
            return out
        last = {}
        for key, v in n[1]:
            last[key] = v
        items = list(last.items())
        r.shuffle(items)
        out = ["O%d" % len(items)]
        for key, v in items:
            out += [key] + emit(v)
        return out

    node, _ = parse(0)
    return emit(node)


# ---- JSON text in the dialect of json::load ----------------------------------------------------------------
def jtext(r, depth=3, broken=0.0):
    ws = lambda: r.choice(["", "", " ", "  ", "\n", "\t", " \r\n", "\v", "\f"])

    def s(raw=None):
        q = r.choice(['"', '"', "'"])
        body = ""
        for _ in range(r.randint(0, 6)):
            k = r.random()
            if k < 0.2:
                body += r.choice(["\\n", "\\t", "\\\\", "\\\"", "\\'", "\\/", "\\b", "\\f", "\\r", "\\u00e9", "\\u12G4", "\\x", "\\\n"])
            elif k < 0.3:
                body += r.choice(["é", "→", "/", ":", ",", "{", "]"])
            else:
                body += chr(r.randint(0x61, 0x7a))
        return q + body + q

    def num():
        return r.choice(["0", "1", "-1", "12", "3.5", "-2.5e3", "1e-2", "0x1f", "0b11", "7L", "8UL", "1.5f", "2e2f", "00", "-0", "123456789012", "1E5",
                         "true", "false", "- 3.25", "-  7", "- 1e1f", "4294967295", "18446744073709551615L", "-9223372036854775808L", "0.1", "1.0e+00", "5.00000000e-01f"])

    def val(d):
        k = r.random()
        if d <= 0 or k < 0.35:
            return r.choice([num(), num(), s(), "null", "true", "false", s()])
        if k < 0.65:
            n = r.randint(0, 3)
            items = [ws() + val(d - 1) + ws() for _ in range(n)]
            t = "[" + ",".join(items) + (r.choice(["", ",", " , "]) if n else ws()) + "]"
            return t
        n = r.randint(0, 3)
        items = []
        for _ in range(n):
            key = r.choice(['"a"', '"b"', 'c', 'key', "'q'", '"a b"', '"x\\"y"', '"a/b"', 'a.b', s()])
            items.append(ws() + key + ws() + ":" + ws() + val(d - 1) + ws())
        return "{" + ",".join(items) + (r.choice(["", ",", ", "]) if n else ws()) + "}"

    t = ws() + val(depth)
    if r.random() < 0.15:
        t = "// comment\\\n more\n" + t if r.random() < 0.3 else t + r.choice([" ", " x", ",", "]"])
    if r.random() < broken:
        k = r.random()
        if k < 0.5 and t:
            t = t[:r.randint(0, len(t))]                    # truncation: unclosed strings / arrays / objects
        elif k < 0.8 and t:
            i = r.randint(0, len(t) - 1)
            t = t[:i] + t[i + 1:]                           # one character dropped
        else:
            i = r.randint(0, len(t))
            t = t[:i] + r.choice(['"', "{", "[", "}", "]", ",", ":", "\\", "t", "n", "/", "\x01"]) + t[i:]
    return t.encode("utf-8", "replace")
