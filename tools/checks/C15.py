"""C15 — Printing a parsed program preserves its meaning and re-parses identically."""
import os, re, subprocess, urllib.parse
from vlib import *

META = {
    "technique": "Lean 4 theorems over a model of OCCA's operator-precedence expression parser and node printers whose operator table, "
                 "bit masks, associativity and code-shape switches are regenerated from the C++; differential run of the model against the "
                 "real tokenizer/parser/printers under ASan/UBSan; model-independent re-parse oracle and a g++ evaluation oracle",
    "category": "proof",
    "level_text": "Proof, for EVERY token sequence with the shape of a C expression (any length and nesting), that the parser accepts it, "
                  "that the tokens printed from the parsed tree are the tokens parsed and parse back to the identical tree "
                  "(C15_accepts_and_roundtrips, C15_print_parse_tokens, C15_roundtrip), that the tree is precedence-correct (C15_parse_image) "
                  "over a precedence/associativity table equal to the C/C++ one (C15_table_is_cxx), and that escape/unescape are inverse "
                  "(C15_escape_roundtrip); tied to the code by the regenerated operator table and code-shape switches and by a seeded "
                  "differential run of the real tokenizer, parser and printers against the model; statements, declarations and compiled "
                  "values are covered by the harness oracles (re-parse identity of whole programs, g++ evaluation of original vs printed "
                  "expressions and functions) only.",
    "level_note": "Trusted: Lean kernel; translate/gen_ops.py (regex extraction of operator.cpp tables and of the shape of six functions); the "
                  "hand-written transcription of expressionParser.cpp and of the print methods in OccaModel/Expr.lean (validated by the "
                  "correspondence run, not proved equal to the C++); the model tokenizer is a simplification of tokenizer.cpp that is only "
                  "compared on printed expressions; statement-level printing is not modelled.",
    "design_ref": "DESIGN.md section 4, C15",
}


def pct(s):
    o = []
    for ch in s.encode():
        o.append("%%%02x" % ch if (ch <= 32 or ch == 37 or ch >= 127) else chr(ch))
    return "".join(o) or "%"


def unpct(s):
    return "" if s == "%" else urllib.parse.unquote(s)


# ------------------------------------------------------------------ expression generator
IDS = ["a", "b", "c", "d", "e", "x", "y", "i", "n", "p", "q", "foo", "bar_1", "_t", "A", "Z9"]
INTS = ["0", "1", "2", "7", "10", "42", "255", "0x1F", "0xff", "017", "0b101", "10UL", "3u", "5L", "100ULL", "2147483647"]
FLTS = ["1.0", "1.5f", "0.25", "1e10", "1.5e-3", "2.5E+4", ".5", "1.f", "3.14159"]
CHRS = ["'a'", "'Z'", "'0'", "'\\n'", "'\\0'", "'\\\\'", "'\\''", "'\"'", "'\\x41'", "L'w'", "u'q'", "U'r'"]
STRS = ['"abc"', '""', '"a\\"b"', '"\\"abc"', '"\\\\"', '"tab\\there"', '"it\'s"', '"x%dy"', 'L"wide"', 'u8"utf"', 'u"s"', 'U"t"',
        '"a\\\\\\"b"', '"(paren)"', '"semi;colon"', '"//nocomment"', '"/*nor*/"']
TYPES = ["int", "float", "double", "char", "short", "bool", "int*", "float*", "char**", "void*"]
BIN = {5: ["*", "/", "%"], 6: ["+", "-"], 7: ["<<", ">>"], 9: ["<", "<=", ">", ">="], 10: ["==", "!="], 11: ["&"], 12: ["^"],
       13: ["|"], 14: ["&&"], 15: ["||"]}
ASSIGN = ["=", "+=", "-=", "*=", "/=", "%=", "&=", "|=", "^=", "<<=", ">>="]
PREFIX = ["!", "~", "-", "+", "*", "&", "++", "--"]


def type_toks(t):
    base = t.rstrip("*")
    return [base] + ["*"] * (len(t) - len(base))


class Gen:
    """tokens of a random C expression; `adv` raises the share of adjacency-critical shapes"""

    def __init__(self, r, adv=0.3, strings=True, casts=True):
        self.r, self.adv, self.strings, self.casts = r, adv, strings, casts

    def atom(self):
        r = self.r
        k = r.random()
        if k < 0.55:
            return [r.choice(IDS)]
        if k < 0.75:
            return [r.choice(INTS)]
        if k < 0.83:
            return [r.choice(FLTS)]
        if k < 0.88:
            return [r.choice(["true", "false"])]
        if not self.strings:
            return [r.choice(IDS)]
        if k < 0.94:
            return [r.choice(CHRS)]
        return [r.choice(STRS)]

    def primary(self, d):
        r = self.r
        if d > 0 and r.random() < 0.25:
            return ["("] + self.expr(d - 1, 18) + [")"]
        return self.atom()

    def postfix(self, d):
        r = self.r
        t = self.primary(d)
        if len(t) == 1 and (not (t[0][0].isalpha() or t[0][0] == "_") or t[0] in ("true", "false") or t[0][-1] in "\"'"):
            return t                      # literals take no postfix operator in C
        if len(t) == 1 and r.random() < 0.08:
            t = t + ["::", r.choice(IDS)]   # qualified name
            if r.random() < 0.3:
                t = ["::"] + t
        for _ in range(r.choice([0, 0, 0, 1, 1, 2, 3])):
            if d <= 0:
                break
            k = r.random()
            if k < 0.25:
                n = r.choice([0, 1, 1, 2, 3])
                args = []
                for j in range(n):
                    if j:
                        args.append(",")
                    args += self.expr(d - 1, 17)
                t = t + ["("] + args + [")"]
            elif k < 0.45:
                t = t + ["["] + self.expr(d - 1, 18) + ["]"]
            elif k < 0.6:
                t = t + [r.choice([".", "->"]), r.choice(IDS)]
            elif k < 0.8:
                t = t + [r.choice(["++", "--"])]
            else:
                break
        return t

    def unary(self, d):
        r = self.r
        k = r.random()
        if d > 0 and k < 0.22 + 0.3 * self.adv:
            op = r.choice(PREFIX)
            if r.random() < self.adv:
                # adjacency-critical pairs: - -x, + ++x, & &x, - --x, * *p, ! !x ...
                inner = self.unary(d - 1)
                return [op] + inner
            return [op] + self.unary(d - 1)
        if d > 0 and k < 0.30 + 0.3 * self.adv and self.casts:
            return ["("] + type_toks(r.choice(TYPES)) + [")"] + self.unary(d - 1)
        if d > 0 and k < 0.34 + 0.3 * self.adv:
            if r.random() < 0.6:
                return ["sizeof", "("] + self.expr(d - 1, 18) + [")"]
            return ["sizeof"] + self.unary(d - 1)
        return self.postfix(d)

    def expr(self, d, level):
        """an expression whose top operator binds at most as loosely as `level`"""
        r = self.r
        if level <= 3 or d <= 0:
            return self.unary(d)
        if level == 18:
            if r.random() < 0.12:
                return self.expr(d - 1, 18) + [","] + self.expr(d - 1, 17)
            return self.expr(d, 17)
        if level == 17:
            k = r.random()
            if k < 0.15:
                return self.unary(d - 1) + [r.choice(ASSIGN)] + self.expr(d - 1, 17)
            if k < 0.19:
                return ["throw"] + self.expr(d - 1, 17)
            if k < 0.23:
                n = r.choice([0, 1, 2, 3])
                items = []
                for j in range(n):
                    if j:
                        items.append(",")
                    items += self.expr(d - 1, 16)
                return self.unary(d - 1) + ["=", "{"] + items + ["}"]
            return self.expr(d, 16)
        if level == 16:
            if r.random() < 0.14:
                mid = self.expr(d - 1, r.choice([16, 16, 17, 18]))
                return self.expr(d - 1, 15) + ["?"] + mid + [":"] + self.expr(d - 1, 16)
            return self.expr(d, 15)
        if level not in BIN:
            return self.expr(d, level - 1)
        if r.random() < 0.25:
            return self.expr(d - 1, level) + [r.choice(BIN[level])] + self.expr(d - 1, level - 1)
        return self.expr(d, level - 1)


def gen_expr(r, adv=0.3):
    g = Gen(r, adv)
    return g.expr(r.choice([1, 2, 2, 3, 3, 4]), 18)


SOUP = IDS[:6] + INTS[:4] + ["+", "-", "*", "&", "++", "--", "!", "~", "?", ":", ",", "=", ".", "->", "::", "<", "==", "&&", "sizeof",
                             "throw", "int", "'c'", '"s"', "new", "delete"]


def gen_soup(r):
    """token soup with balanced pairs: mostly rejected; the model must agree on the verdict too"""
    out, opened = [], []
    for _ in range(r.randint(1, 9)):
        k = r.random()
        if k < 0.12:
            o = r.choice(["(", "[", "{"])
            opened.append({"(": ")", "[": "]", "{": "}"}[o])
            out.append(o)
        elif k < 0.24 and opened:
            out.append(opened.pop())
        else:
            out.append(r.choice(SOUP))
    while opened:
        out.append(opened.pop())
    return out


def gen_history(r):
    h = []
    for _ in range(r.randint(2, 6)):
        k = r.random()
        if k < 0.08:
            h.append("G " + " ".join(gen_soup(r)))
        elif k < 0.14:
            # glued spelling of the same tokens: the tokenizer decides where operators end
            toks = gen_expr(r, 0.2)
            text = ""
            for t in toks:
                if text and (text[-1].isalnum() or text[-1] == "_") and (t[0].isalnum() or t[0] == "_"):
                    text += " "
                elif text and text[-1] in "+-&|<>=!*/%^:.?" and t[0] in "+-&|<>=!*/%^:.?":
                    text += " "
                elif text and text[-1] == "." and t[0].isdigit():
                    text += " "
                text += t
            h.append("X " + pct(text))
        elif k < 0.18:
            v = "".join(r.choice(['"', "'", "\\", "a", "b", " ", "%"]) for _ in range(r.randint(0, 6)))
            h.append("Q " + pct(v))
        else:
            h.append("E " + " ".join(gen_expr(r, r.choice([0.1, 0.3, 0.6]))))
    return h


# ------------------------------------------------------------------ statement / program generator (S ops)
DTYPES = ["int", "float", "double", "char", "long", "unsigned int", "const int", "const float", "bool", "short", "unsigned char",
          "long long", "size_t"]


class SGen:
    def __init__(self, r):
        self.r = r
        self.g = Gen(r, 0.25, strings=True, casts=True)
        self.n = 0

    def fresh(self):
        self.n += 1
        return "v%d" % self.n

    def e(self, d=2, level=17):
        return " ".join(self.g.expr(d, level))

    def declarator(self):
        r = self.r
        k = r.random()
        name = self.fresh()
        if k < 0.55:
            return name
        if k < 0.7:
            return "*" + name
        if k < 0.75:
            return "**" + name
        if k < 0.8:
            return "* const " + name
        if k < 0.9:
            return name + "[" + r.choice(["4", "n", "2 * 3", ""]) + "]" if r.random() < 0.8 else name + "[2][3]"
        return "&" + name

    def decl(self):
        r = self.r
        t = r.choice(DTYPES)
        parts = []
        for _ in range(r.choice([1, 1, 1, 2, 3])):
            dcl = self.declarator()
            if dcl.endswith("[]"):
                dcl += " = {1, 2}"
            elif "[" in dcl:
                if r.random() < 0.4:
                    dcl += " = {" + ", ".join(self.e(1, 16) for _ in range(r.randint(1, 3))) + "}"
            elif r.random() < 0.6 or dcl.startswith("&"):
                dcl += " = " + self.e(2, 16)
            parts.append(dcl)
        return t + " " + ", ".join(parts) + ";"

    def stmt(self, d):
        r = self.r
        k = r.random()
        if d <= 0 or k < 0.3:
            return self.e(3, 18) + ";"
        if k < 0.45:
            return self.decl()
        if k < 0.55:
            s = "if (" + self.e(2, 18) + ") " + self.body(d - 1)
            for _ in range(r.choice([0, 0, 1, 2])):
                s += " else if (" + self.e(1, 18) + ") " + self.body(d - 1)
            if r.random() < 0.5:
                s += " else " + self.body(d - 1)
            return s
        if k < 0.65:
            v = self.fresh()
            init = r.choice(["int %s = 0" % v, "%s = 0" % v, "", "int %s = 0, j = n" % v])
            chk = r.choice(["%s < n" % v, self.e(1, 16), ""])
            upd = r.choice(["++%s" % v, "%s++" % v, "%s += 2" % v, "%s++, j--" % v, ""])
            return "for (" + init + "; " + chk + "; " + upd + ") " + self.body(d - 1)
        if k < 0.72:
            return "while (" + self.e(2, 18) + ") " + self.body(d - 1)
        if k < 0.77:
            return "do " + self.body(d - 1, True) + " while (" + self.e(2, 18) + ");"
        if k < 0.83:
            return "return " + self.e(3, 18) + ";" if r.random() < 0.8 else "return;"
        if k < 0.88:
            return "{ " + " ".join(self.stmt(d - 1) for _ in range(r.randint(0, 3))) + " }"
        if k < 0.93:
            cases = ""
            for _ in range(r.randint(1, 3)):
                cases += "case " + r.choice(INTS[:6]) + ": " + self.stmt(0) + " " + r.choice(["break;", "", "continue;"]) + " "
            if r.random() < 0.5:
                cases += "default: " + self.stmt(0) + " "
            return "switch (" + self.e(1, 18) + ") { " + cases + "}"
        return r.choice(["break;", "continue;", ";"])

    def body(self, d, braces=False):
        if braces or self.r.random() < 0.7:
            return "{ " + " ".join(self.stmt(d) for _ in range(self.r.randint(0, 3))) + " }"
        return self.stmt(d)

    def program(self):
        r = self.r
        k = r.random()
        if k < 0.3:
            rt = r.choice(["int", "void", "float", "static int", "inline double", "const char *"])
            args = ", ".join(r.choice(DTYPES) + " " + r.choice(["", "*", "&"]) + "p%d" % i for i in range(r.randint(0, 3)))
            return rt + " fn(" + args + ") { " + " ".join(self.stmt(2) for _ in range(r.randint(1, 4))) + " }"
        return " ".join(self.stmt(2) for _ in range(r.randint(1, 4)))


def gen_program(r):
    return SGen(r).program()


# ------------------------------------------------------------------ semantic oracle (g++)
SEM_VARS = ["a", "b", "c", "d"]


class SemGen:
    """C expressions over unsigned long variables whose evaluation is defined for every input"""

    def __init__(self, r):
        self.r = r
        self.tmp = 0

    def fresh(self):
        self.tmp += 1
        return "t%d" % (self.tmp % 6)

    def prim(self, d):
        r = self.r
        k = r.random()
        if d <= 0 or k < 0.35:
            return [r.choice(SEM_VARS)] if r.random() < 0.7 else [r.choice(["0", "1", "2", "7", "0x1F", "017", "3u", "10UL", "'a'", "'\\n'", "true"])]
        if k < 0.55:
            return ["("] + self.ex(d - 1, 18) + [")"]
        if k < 0.63:
            return ["f2", "("] + self.ex(d - 1, 17) + [","] + self.ex(d - 1, 17) + [")"]
        if k < 0.7:
            return ["arr", "["] + ["("] + self.ex(d - 1, 17) + [")", "&", "3", "]"]
        if k < 0.75:
            return [r.choice(["s", "s"]), ".", r.choice(["x", "y"])]
        if k < 0.8:
            return ["ps", "->", r.choice(["x", "y"])]
        if k < 0.85:
            return ["sizeof", "("] + self.ex(d - 1, 16) + [")"]
        return [r.choice(SEM_VARS)]

    def un(self, d):
        r = self.r
        k = r.random()
        if d > 0 and k < 0.3:
            op = r.choice(["!", "~", "-", "+", "-", "+"])
            return [op] + self.un(d - 1)
        if d > 0 and k < 0.36:
            return ["*", "&"] + [r.choice(SEM_VARS)]
        if d > 0 and k < 0.42:
            return ["(", r.choice(["int", "short", "char", "bool"]), ")"] + self.un(d - 1)
        if d > 0 and k < 0.47:
            v = self.fresh()
            self.used.add(v)
            return r.choice([["++", v], ["--", v], [v, "++"], [v, "--"]])
        return self.prim(d)

    def ex(self, d, level):
        r = self.r
        if level <= 3 or d <= 0:
            return self.un(d)
        if level == 18:
            if r.random() < 0.1:
                return self.ex(d - 1, 18) + [","] + self.ex(d - 1, 17)
            return self.ex(d, 17)
        if level == 17:
            return self.ex(d, 16)
        if level == 16:
            if r.random() < 0.2:
                return self.ex(d - 1, 15) + ["?"] + self.ex(d - 1, 16) + [":"] + self.ex(d - 1, 16)
            return self.ex(d, 15)
        if level not in BIN:
            return self.ex(d, level - 1)
        if r.random() < 0.35:
            op = r.choice(BIN[level])
            rhs = self.ex(d - 1, level - 1)
            if op in ("/", "%"):
                rhs = ["("] + rhs + ["|", "1UL", ")"]      # unsigned and non-zero: no SIGFPE (x/0, INT_MIN/-1)
            if op in ("<<", ">>"):
                rhs = ["("] + rhs + ["&", "15", ")"]
            return self.ex(d - 1, level) + [op] + rhs
        return self.ex(d, level - 1)

    def make(self):
        self.used = set()
        self.tmp = self.r.randint(0, 5)
        for _ in range(20):
            self.used = set()
            toks = self.ex(self.r.choice([2, 3, 3, 4]), 18)
            # every temporary is modified at most once and appears once (no unsequenced side effects)
            if all(toks.count(v) <= 1 for v in self.used):
                return toks
        return [self.r.choice(SEM_VARS)]


SEM_PRELUDE = r"""
typedef unsigned long ul;
struct S { ul x, y; };
static ul f2(ul x, ul y) { return x * 31 + y; }
#define ARGS ul a, ul b, ul c, ul d, ul *arr, S s, S *ps, ul t0, ul t1, ul t2, ul t3, ul t4, ul t5
"""


def parse_sexp(text):
    """the harness's tree dump -> nested lists"""
    toks = text.replace("(", " ( ").replace(")", " ) ").split()
    pos = 0

    def rd():
        nonlocal pos
        t = toks[pos]
        pos += 1
        if t == "(":
            l = []
            while toks[pos] != ")":
                l.append(rd())
            pos += 1
            return l
        return t
    return rd()


def render_tree(t):
    """the parsed tree as fully parenthesised C: what OCCA's grouping means to a C++ compiler"""
    k = t[0]
    if k == "id":
        return unpct(t[1])
    if k == "prim":
        return unpct(t[1])
    if k == "chr":
        return ("" if t[1] == "-" else t[1]) + "'" + unpct(t[2]).replace("'", "\\'") + "'"
    if k == "par":
        return "(" + render_tree(t[1]) + ")"
    if k == "bin":
        if unpct(t[1]) in (".", "->") and t[3][0] == "id":
            return "((" + render_tree(t[2]) + ")" + unpct(t[1]) + unpct(t[3][1]) + ")"
        return "((" + render_tree(t[2]) + ")" + unpct(t[1]) + "(" + render_tree(t[3]) + "))"
    if k == "lu":
        return "(" + unpct(t[1]) + "(" + render_tree(t[2]) + "))"
    if k == "ru":
        return "((" + render_tree(t[2]) + ")" + unpct(t[1]) + ")"
    if k == "tern":
        return "((" + render_tree(t[1]) + ")?(" + render_tree(t[2]) + "):(" + render_tree(t[3]) + "))"
    if k == "call":
        return "(" + render_tree(t[1]) + ")(" + ", ".join(render_tree(a) for a in t[2:] if a != ["empty"]) + ")"
    if k == "sub":
        return "(" + render_tree(t[1]) + ")[" + render_tree(t[2]) + "]"
    if k == "cast":
        return "((" + t[1].replace("*", " *") + ")(" + render_tree(t[2]) + "))"
    if k == "sizeof":
        return "sizeof(" + render_tree(t[1]) + ")"
    raise ValueError("unrenderable node " + k)


def semantic_oracle(ck, hb, n_expr):
    r = ck.rng
    gens = [SemGen(r).make() for _ in range(n_expr)]
    impl, _, _ = ck.run_impl(hb, [["E " + " ".join(t)] for t in gens], timeout=300, env=ENV)
    pairs = []
    rejected = 0
    for toks, obs in zip(gens, impl):
        m = re.match(r"ok T=(.*) P=(\S+) R=", obs[-1] if obs else "")
        if not m:
            rejected += 1
            continue
        try:
            tree = render_tree(parse_sexp(m.group(1)))
        except Exception:
            tree = " ".join(toks)      # a node kind outside the evaluable grammar: compare the original with itself
        pairs.append((" ".join(toks), unpct(m.group(2)), tree))
    ck.cov["counters"]["semantic_expressions"] = len(pairs)
    ck.cov["counters"]["semantic_rejected_by_parser"] = rejected
    if not pairs:
        return
    d = os.path.join(BUILD, "tmp", "c15sem_%d_%d" % (ck.seed, os.getpid()))
    os.makedirs(d, exist_ok=True)

    def source(active):
        L = [SEM_PRELUDE]
        for i, (o, p, g) in enumerate(pairs):
            if i in active:
                L.append("static ul o_%d(ARGS) { return (ul) (%s); }" % (i, o.replace("\n", " ")))
                L.append("static ul p_%d(ARGS) { return (ul) (%s); }" % (i, p.replace("\n", " ")))
                L.append("static ul g_%d(ARGS) { return (ul) (%s); }" % (i, g.replace("\n", " ")))
            else:
                L.append("")
                L.append("")
                L.append("")
        L.append("#include <cstdio>")
        L.append("typedef ul (*fn)(ARGS);")
        L.append("static fn O[] = {%s};" % ", ".join("o_%d" % i if i in active else "0" for i in range(len(pairs))))
        L.append("static fn P[] = {%s};" % ", ".join("p_%d" % i if i in active else "0" for i in range(len(pairs))))
        L.append("static fn G[] = {%s};" % ", ".join("g_%d" % i if i in active else "0" for i in range(len(pairs))))
        L.append(r"""
int main() {
  ul seed = %dUL;
  for (int k = 0; k < %d; ++k) {
    if (!O[k]) continue;
    for (int it = 0; it < 12; ++it) {
      ul v[16];
      for (int j = 0; j < 16; ++j) { seed = seed * 6364136223846793005UL + 1442695040888963407UL; v[j] = (it < 3) ? (seed >> 60) : (it < 6 ? (ul) (long) (int) (seed >> 33) : seed); }
      ul arr1[4] = {v[4], v[5], v[6], v[7]}, arr2[4] = {v[4], v[5], v[6], v[7]}, arr3[4] = {v[4], v[5], v[6], v[7]};
      S s = {v[8], v[9]}, q1 = {v[10], v[11]}, q2 = {v[10], v[11]}, q3 = {v[10], v[11]};
      ul x = O[k](v[0], v[1], v[2], v[3], arr1, s, &q1, v[12], v[13], v[14], v[15], v[1], v[2]);
      ul y = P[k](v[0], v[1], v[2], v[3], arr2, s, &q2, v[12], v[13], v[14], v[15], v[1], v[2]);
      ul z = G[k](v[0], v[1], v[2], v[3], arr3, s, &q3, v[12], v[13], v[14], v[15], v[1], v[2]);
      if (x != y) { std::printf("DIFF %%d\n", k); break; }
      if (x != z) { std::printf("TREE %%d\n", k); break; }
    }
  }
  std::printf("DONE\n");
  return 0;
}""" % (ck.seed * 7919 + 13, len(pairs)))
        return "\n".join(L) + "\n"

    active = set(range(len(pairs)))
    src = os.path.join(d, "sem.cpp")
    nprelude = SEM_PRELUDE.count("\n") + 1
    bad_orig, bad_print, bad_tree = set(), set(), set()
    for _ in range(4):
        open(src, "w").write(source(active))
        rc, so, se = sh(["g++", "-std=c++17", "-fsyntax-only", "-w", "-fmax-errors=0", src], timeout=600)
        if rc == 0:
            break
        hit = False
        for m in re.finditer(r"sem\.cpp:(\d+):\d+: error", se):
            ln = int(m.group(1)) - nprelude - 1      # 1-based line of o_0 is nprelude + 1
            idx, which = divmod(ln, 3)
            if 0 <= idx < len(pairs) and idx in active:
                hit = True
                (bad_orig if which == 0 else bad_print if which == 1 else bad_tree).add(idx)
        if not hit:
            ck.problems.append(("tie", "semantic oracle: g++ failed for another reason: " + se[-400:]))
            return
        active -= bad_orig | bad_print | bad_tree
    # an original that does not compile is a generator slip (not C); a printed text that does not
    # compile although its original does is a violation
    for i in sorted(bad_print - bad_orig)[:3]:
        ck.oracle_violation("printed expression is not valid C++ although the original is: original `%s` printed `%s`" % pairs[i][:2],
                            "E " + pairs[i][0], name="sem")
    for i in sorted(bad_tree - bad_orig - bad_print)[:3]:
        ck.oracle_violation("the parsed tree is not a C++ expression although the original is (OCCA grouped it differently): "
                            "original `%s` tree `%s`" % (pairs[i][0], pairs[i][2]), "E " + pairs[i][0], name="sem")
    ck.cov["counters"]["semantic_generator_invalid"] = len(bad_orig)
    exe = os.path.join(d, "sem")
    rc, so, se = sh(["g++", "-std=c++17", "-O0", "-w", src, "-o", exe], timeout=900)
    if rc != 0:
        ck.problems.append(("tie", "semantic oracle: g++ link failed: " + se[-300:]))
        return
    rc, so, se = sh([exe], timeout=120)
    if "DONE" not in so:
        ck.problems.append(("tie", "semantic oracle: evaluation program crashed rc=%s" % rc))
        return
    diffs = [int(x) for x in re.findall(r"DIFF (\d+)", so)]
    for i in diffs[:3]:
        ck.oracle_violation("printed expression evaluates differently from the original (g++): original `%s` printed `%s`" % pairs[i][:2],
                            "E " + pairs[i][0], name="sem")
    trees = [int(x) for x in re.findall(r"TREE (\d+)", so)]
    for i in trees[:3]:
        ck.oracle_violation("the parsed tree, fully parenthesised, evaluates differently from the original (g++): OCCA's grouping "
                            "is not C's: original `%s` tree `%s`" % (pairs[i][0], pairs[i][2]), "E " + pairs[i][0], name="sem")
    ck.cov["counters"]["semantic_tree_differences"] = len(trees)
    ck.cov["counters"]["semantic_compiled_pairs"] = len(active)
    ck.cov["counters"]["semantic_value_differences"] = len(diffs)
    ck.cov["evaluations"] += len(active)
    shutil.rmtree(d, ignore_errors=True)


# ------------------------------------------------------------------ semantic oracle for statements (g++)
class ProgSemGen:
    """a terminating C function over unsigned long locals: declarations, assignments, if/else chains (with and without
    braces, dangling else), for / while / do-while with constant trip counts, switch with fall-through, break/continue,
    nested blocks, early return"""

    def __init__(self, r):
        self.r = r
        self.n = 0
        self.vars = ["a", "b", "c"]

    def fresh(self, p="v"):
        self.n += 1
        return "%s%d" % (p, self.n)

    def ex(self, d=2):
        r = self.r
        if d <= 0 or r.random() < 0.35:
            return r.choice(self.vars + ["1", "2", "3", "7", "0x10", "'a'"])
        k = r.random()
        if k < 0.5:
            op = r.choice(["+", "-", "*", "&", "|", "^", "<", ">", "<=", "==", "!=", "&&", "||", "<<", ">>", "/", "%"])
            rhs = self.ex(d - 1)
            if op in ("/", "%"):
                rhs = "((" + rhs + ") | 1UL)"              # unsigned and non-zero: no SIGFPE (x/0, INT_MIN/-1)
            if op in ("<<", ">>"):
                rhs = "((" + rhs + ") & 7)"
            return self.ex(d - 1) + " " + op + " " + rhs
        if k < 0.62:
            return r.choice(["-", "!", "~", "+"]) + self.ex(d - 1) if r.random() < 0.5 else r.choice(["-", "+"]) + " " + r.choice(["-", "+"]) + self.ex(d - 1)
        if k < 0.75:
            return "(" + self.ex(d - 1) + ")"
        if k < 0.85:
            return self.ex(d - 1) + " ? " + self.ex(d - 1) + " : " + self.ex(d - 1)
        if k < 0.92:
            return "(" + r.choice(["int", "short", "char", "bool"]) + ") " + r.choice(["", "-", "~"]) + r.choice(self.vars)
        return "g2(" + self.ex(d - 1) + ", " + self.ex(d - 1) + ")"

    def assign(self):
        r = self.r
        v = r.choice(self.vars)
        k = r.random()
        if k < 0.5:
            return v + " " + r.choice(["=", "+=", "-=", "*=", "^=", "|=", "&="]) + " " + self.ex(2) + ";"
        if k < 0.7:
            return r.choice([v + "++;", "++" + v + ";", v + "--;", "--" + v + ";"])
        w = r.choice(self.vars)
        return v + " = " + w + " = " + self.ex(1) + ";"

    def stmt(self, d, in_loop=False, in_switch=False):
        r = self.r
        k = r.random()
        if d <= 0 or k < 0.3:
            return self.assign()
        if k < 0.4:
            v = self.fresh()
            s = "ul " + v + " = " + self.ex(2)
            if r.random() < 0.3:
                w = self.fresh()
                s += ", " + w + " = " + self.ex(1)
                self.vars.append(w)
            self.vars.append(v)
            return s + ";"
        if k < 0.6:
            s = "if (" + self.ex(2) + ") " + self.body(d - 1, in_loop, in_switch)
            for _ in range(r.choice([0, 0, 1, 2])):
                s += " else if (" + self.ex(1) + ") " + self.body(d - 1, in_loop, in_switch)
            if r.random() < 0.6:
                s += " else " + self.body(d - 1, in_loop, in_switch)
            return s
        if k < 0.72:
            i = self.fresh("i")
            n = r.choice([0, 1, 2, 3, 5])
            upd = r.choice(["++" + i, i + "++", i + " += 1"])
            return "for (int %s = 0; %s < %d; %s) " % (i, i, n, upd) + self.body(d - 1, True, False, [i])
        if k < 0.8:
            i = self.fresh("w")
            return "{ int %s = %d; while (%s-- > 0) " % (i, r.choice([0, 1, 3, 4]), i) + self.body(d - 1, True, False, [i]) + " }"
        if k < 0.87:
            i = self.fresh("q")
            return "{ int %s = 0; do " % i + self.body(d - 1, True, False, [i], braces=True) + " while (++%s < %d); }" % (i, r.choice([1, 2, 3]))
        if k < 0.93:
            cases = ""
            for c in r.sample([0, 1, 2, 3, 4], r.randint(1, 3)):
                cases += "case %d: " % c + self.assign() + " " + r.choice(["break;", "", "break;"]) + " "
            if r.random() < 0.6:
                cases += "default: " + self.assign() + " "
            return "switch (" + self.ex(1) + " & 3) { " + cases + "}"
        if k < 0.96 and in_loop and not in_switch:
            return "if (" + self.ex(1) + ") " + r.choice(["break;", "continue;"])
        if k < 0.98:
            return "if (" + self.ex(1) + ") return " + self.ex(1) + ";"
        saved = list(self.vars)
        s = "{ " + " ".join(self.stmt(d - 1, in_loop, in_switch) for _ in range(r.randint(0, 2))) + " }"
        self.vars = saved
        return s

    def body(self, d, in_loop, in_switch, protect=(), braces=False):
        saved = list(self.vars)
        self.vars = [v for v in self.vars if v not in protect]
        if braces or self.r.random() < 0.6:
            s = "{ " + " ".join(self.stmt(d, in_loop, in_switch) for _ in range(self.r.randint(0, 3))) + " }"
        else:
            s = self.stmt(0, in_loop, in_switch)
        self.vars = saved
        return s

    def function(self):
        self.vars = ["a", "b", "c"]
        body = " ".join(self.stmt(3) for _ in range(self.r.randint(2, 5)))
        return "ul fn(ul a, ul b, ul c) { " + body + " return a ^ (b * 3) ^ (c * 5); }"


def program_semantic_oracle(ck, hb, n_prog):
    """original vs printed FUNCTIONS compiled with g++ and run on the same inputs"""
    r = ck.rng
    progs = [ProgSemGen(r).function() for _ in range(n_prog)]
    impl, _, _ = ck.run_impl(hb, [["S " + pct("typedef unsigned long ul; " + p)] for p in progs], timeout=600, env=ENV)
    pairs = []
    for p, obs in zip(progs, impl):
        m = re.match(r"ok T=.* P=(\S+) R=", obs[-1] if obs else "")
        if m:
            pairs.append((p, unpct(m.group(1))))
    ck.cov["counters"]["semantic_functions"] = len(pairs)
    ck.cov["counters"]["semantic_functions_rejected_by_parser"] = len(progs) - len(pairs)
    if not pairs:
        return
    d = os.path.join(BUILD, "tmp", "c15prog_%d_%d" % (ck.seed, os.getpid()))
    os.makedirs(d, exist_ok=True)
    bad = set()
    src = os.path.join(d, "prog.cpp")
    HEAD = "#include <cstdio>\ntypedef unsigned long ul;\nstatic ul g2(ul x, ul y) { return x * 31 + (y ^ 5); }\n"

    def source(active):
        L = [HEAD]
        for i, (o, p) in enumerate(pairs):
            if i in active:
                L.append("namespace O%d { %s }" % (i, o))
                # the printed program repeats the typedef
                L.append("namespace P%d { %s }" % (i, re.sub(r"typedef[^;]*;", "", " ".join(p.split("\n")), count=1)))
            else:
                L.append("")
                L.append("")
        L.append("int main() { ul seed = %dUL; int bad = 0;" % (ck.seed * 31337 + 7))
        for i in sorted(active):
            L.append("  for (int it = 0; it < 10; ++it) { ul v[3]; for (int j = 0; j < 3; ++j) { seed = seed * 6364136223846793005UL + 1442695040888963407UL; "
                     "v[j] = it < 4 ? (seed >> 61) : seed; } if (O%d::fn(v[0], v[1], v[2]) != P%d::fn(v[0], v[1], v[2])) { std::printf(\"DIFF %d\\n\"); break; } }" % (i, i, i))
        L.append("  std::printf(\"DONE\\n\"); return 0; }")
        return "\n".join(L) + "\n"

    active = set(range(len(pairs)))
    nhead = HEAD.count("\n") + 1
    bad_orig, bad_print = set(), set()
    for _ in range(4):
        open(src, "w").write(source(active))
        rc, so, se = sh(["g++", "-std=c++17", "-fsyntax-only", "-w", "-fmax-errors=0", src], timeout=600)
        if rc == 0:
            break
        hit = False
        for m in re.finditer(r"prog\.cpp:(\d+):\d+: error", se):
            idx, which = divmod(int(m.group(1)) - nhead - 1, 2)
            if 0 <= idx < len(pairs) and idx in active:
                hit = True
                (bad_print if which else bad_orig).add(idx)
        if not hit:
            ck.problems.append(("tie", "statement oracle: g++ failed for another reason: " + se[-400:]))
            return
        active -= bad_orig | bad_print
    for i in sorted(bad_print - bad_orig)[:3]:
        ck.oracle_violation("printed function is not valid C++ although the original is: original `%s` printed `%s`" % pairs[i],
                            "S " + pct(pairs[i][0]), name="psem")
    ck.cov["counters"]["semantic_functions_generator_invalid"] = len(bad_orig)
    exe = os.path.join(d, "prog")
    rc, so, se = sh(["g++", "-std=c++17", "-O0", "-w", src, "-o", exe], timeout=900)
    if rc != 0:
        ck.problems.append(("tie", "statement oracle: g++ link failed: " + se[-300:]))
        return
    rc, so, se = sh([exe], timeout=120)
    if "DONE" not in so:
        ck.problems.append(("tie", "statement oracle: evaluation program did not finish rc=%s" % rc))
        return
    diffs = [int(x) for x in re.findall(r"DIFF (\d+)", so)]
    for i in diffs[:3]:
        ck.oracle_violation("printed function computes different values from the original (g++): original `%s` printed `%s`" % pairs[i],
                            "S " + pct(pairs[i][0]), name="psem")
    ck.cov["counters"]["semantic_functions_compiled"] = len(active)
    ck.cov["counters"]["semantic_function_differences"] = len(diffs)
    ck.cov["evaluations"] += len(active)
    shutil.rmtree(d, ignore_errors=True)


# ------------------------------------------------------------------ corpus
CORPUS = [
    ["E - - o", "E + + o", "E - -- x", "E + ++ x", "E & & x"],                  # F22 family
    ["E - - - a", "E ! ! x", "E * * p", "E ~ ~ x", "E - + - a"],
    ["E sizeof ( x )", "E sizeof x", "E sizeof ( a ) [ 0 ]", "E sizeof ( ( x ) )"],   # C15-N1
    ['E L"abc"', "E u8\"abc\"", "E L'a'", "E u'b' + U'c'"],                        # C15-N2
    ["E a - - b", "E a * ! b", "E a & ~ b", "E a + ++ b", "E a * * p"],           # C15-N3
    ["E ( a ++ )", "E a [ i ++ ]", "E f ( a -- )", "E f ( a , b ++ )"],            # C15-N4
    ["E a ? b : c ? d : e", "E a ? b ? c : d : e", "E ( a ? b : c ) ? d : e", "E a ? b , c : d", "E a ? b = c : d"],   # C15-N5
    ["E ( int ) - x", "E y = ( int ) ( float ) x", "E y = ( float ) ( a + b ) * c", "E ( int ) * p", "E ( int ) ++ y"],   # C15-N7
    ['E "\\"abc"', "E '\\''", "Q %22abc", "Q a%22b%27"],                          # F16 (fixed)
    ["E f ( a , ( b , c ) )", "E a = b , c", "E x = { 1 , 2 }", "E f ( )", "E a [ ]", "E ( )"],
    ["E a . b ( c )", "E a :: b ( c )", "E - f ( x ) [ 1 ] ++", "E * p ++", "E & a -> b"],
    ["G a b +", "G ? b", "G ( a", "G a ++ b", "G ( a ) b", "G 7 . A ( 2 )", "G 1.f . q", "G a )", "G ]"],   # accepted or rejected garbage
    ["E x = { aaaaaaaaaaaaaaaaaaaaaaaaaaaaaaaaaaaa , b , c }", "E x = { a , bbbbbbbbbbbbbbbbbbbbbbbbbbbbbbbbbbbb , c , d }",
     "E y = { aaaaaaaaaaaaaaaaaaaaaaaaaa , bbbbbbbbbbbbbbbbbbbbbbbbbb , cccccccccccccccccccccccccc , d , e }"],   # newline-delimited tuples
    ['E "\\\\\\"" + "\\\\" + \'\\\\\\\'\'', "E - -- a", "E + ++ a", "E -- - a"],   # escaped backslash before an escaped quote; operator/character mix
    ["E f ( aaaaaaaaaaaaaaaaaaaaaaaaaaaaaaaaaaaaaaaa , b )",
     "E g ( aaaaaaaaaaaaaaaaaaaa , bbbbbbbbbbbbbbbbbbbb , cccccccccccccccccccc , dddddddddddddddddddd , e )"],   # newline-delimited calls
]

S_CORPUS = [
    "x = - -a; y = + ++b;",
    "int x = sizeof(y); int z = sizeof y;",
    "const char *s = L\"abc\"; char c = '\\'';",
    "for (int i = 0; i < n; ++i) { x += a[i++]; }",
    "x = a ? b : c ? d : e;",
    "y = (int) -x; z = (float) (a + b) * c; w = (int) (float) v;",
    "if (a) b = 1; else if (c) b = 2; else b = 3;",
    "int *p, **q, &r = x; const int * const cp = 0; int a[2][3];",
    "switch (x) { case 1: y = 2; break; default: y = 3; }",
    "do { a++; } while (a < 10);",
    "int f(int a, float *b) { return a + b[0]; }",
]


# canonical replays of the known findings (must keep failing until repaired)
KNOWN_PROGRAMS = [
    "int (*fp)(int, int);",                  # C15-K1
    'const char *s = R"(a\\nb)";',           # C15-K2
]


def shape_probe(ck, db, hs):
    """model-only: every generated C expression that the parser accepts must satisfy the hypothesis
    of C15_print_parse_tokens (CShape), and then the printed tokens are the input tokens"""
    ops = [["K " + o[2:]] for h in hs for o in h if o.startswith("E ")]
    if not ops or db is None:
        return
    out = ck.run_model(db, ops)
    acc = shaped = 0
    for op, o in zip(ops, out):
        r = o[-1] if o else ""
        if "shape=1" in r and "parse=err" in r:
            ck.problems.append(("proof", "C15_accepts_and_roundtrips is contradicted by the model on: " + op[0]))
        if "parse=ok" in r:
            acc += 1
            if "shape=1" in r:
                shaped += 1
                if "printeq=1" not in r:
                    ck.problems.append(("proof", "C15_print_parse_tokens is contradicted by the model on: " + op[0]))
                if "canon=1" not in r:
                    ck.problems.append(("proof", "C15_parse_image is contradicted by the model on: " + op[0]))
            else:
                ck.problems.append(("tie", "an accepted C expression is outside CShape (hypothesis of C15_print_parse_tokens): " + op[0]))
    ck.cov["counters"]["accepted_expressions_probed"] = acc
    ck.cov["counters"]["accepted_expressions_in_CShape"] = shaped


def main(argv):
    ck = Check("C15", argv)
    ck.rule = ("token sequences from a C expression grammar (all operators of every precedence level, prefix/postfix chains incl. the "
               "adjacency-critical pairs - -x, + ++x, & &x, casts, sizeof, calls, subscripts, member access, ternaries nested on every side, "
               "comma, tuples, literals with escapes and encoding prefixes), glued spellings, balanced token soup; whole programs "
               "(declarations with pointer/array/reference declarators, if/else chains, for, while, do, switch, return, blocks, functions); "
               "a case is non-trivial when the real parser accepted it; distinct by SHA-1 of the op text")
    ck.assumptions = ["ASCII sources", "raw string literals, user-defined literals and CUDA <<< >>> launches are outside the modelled subset",
                      "the model tokenizer is compared with the real one only on printed expressions and on blank-separated tokens"]
    ck.translate(["gen_ops"])
    ck.prove("C15")
    hb = ck.harness("h_expr")
    db = ck.driver("drv_expr")
    if ck.replay:
        ops = read_replay(ck.replay)
        model_ops = [o for o in ops if not o.startswith("S ")]
        if model_ops:
            ck.correspond(hb, db, [model_ops], label="expr", ubsan_is_violation=UBRE, env=ENV)
        progs = [o for o in ops if o.startswith("S ")]
        if progs and hb:
            run_programs(ck, hb, [unpct(o[2:]) for o in progs])
        ck.finish(META["level_text"])
    quick = ck.tier == "quick"
    n = 260 if quick else 6000
    hs = CORPUS + [gen_history(ck.rng) for _ in range(n)]
    ck.correspond(hb, db, hs, label="expr", ubsan_is_violation=UBRE, timeout=600, env=ENV,
                  nontrivial=lambda h, obs: any(o.startswith("ok ") for o in obs))
    shape_probe(ck, db, hs)
    if hb:
        progs = S_CORPUS + KNOWN_PROGRAMS + [gen_program(ck.rng) for _ in range(160 if quick else 3000)]
        run_programs(ck, hb, progs)
        semantic_oracle(ck, hb, 250 if quick else 3000)
        program_semantic_oracle(ck, hb, 50 if quick else 1500)
    ck.finish(META["level_text"])


UBRE = r"lang/(expr|printer|operator|token/(string|char|operator)Token)|utils/string\.cpp"
# memory that the front end leaks on REJECTED input is not this property's business (C16 / C01):
# LeakSanitizer reports at exit would be attributed to whatever history happened to be last
ENV = {"ASAN_OPTIONS": "detect_leaks=0:abort_on_error=0:exitcode=66:allocator_may_return_null=1"}


def run_programs(ck, hb, progs):
    """whole programs through parser_t: only the harness oracles (the statement printers are not modelled)"""
    hs = [["S " + pct(p)] for p in progs]
    impl, ora, notes = ck.run_impl(hb, hs, timeout=900, ubsan_is_violation=UBRE, env=ENV)
    ok = sum(1 for o in impl if o and o[-1].startswith("ok "))
    ck.cov["counters"]["programs"] = len(progs)
    ck.cov["counters"]["programs_accepted"] = ok
    ck.cov["evaluations"] += len(progs)
    ck.cov["distinct_nontrivial"] += ok
    for k in range(min(2, len(progs))):
        ck.cov["samples"].append({"program": progs[k][:200], "impl": [x[:300] for x in impl[k]]})
    for i, o in enumerate(ora):
        if o:
            what = "; ".join(sorted(set(unpct(x)[:300] for x in o)))
            ck.oracle_violation(what, "S " + pct(shrink_program(ck, hb, progs[i], o[0][:24])), name="prog")


def shrink_program(ck, hb, prog, kind):
    """drop whole top-level statements while the same oracle still fires"""
    def fails(p):
        _, ora, _ = ck.run_impl(hb, [["S " + pct(p)]], timeout=60, ubsan_is_violation=UBRE, env=ENV)
        return bool(ora[0]) and ora[0][0][:24] == kind
    parts = [x for x in re.split(r"(?<=;)\s+", prog) if x]
    budget = 40
    i = 0
    while i < len(parts) and budget > 0 and len(parts) > 1:
        cand = parts[:i] + parts[i + 1:]
        budget -= 1
        if fails(" ".join(cand)):
            parts = cand
        else:
            i += 1
    return " ".join(parts)
