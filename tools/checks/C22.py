"""C22 — every backend enforces the same OKL rules.

Rule-conforming generated kernels and all single-rule mutations of them go through the seven real
translators in-process (harness/h_okl.cpp); the success flags are compared with
  * the property's demand (the plugin knows which rule a mutation breaks): model-independent oracle,
  * each other (all translators agree),
  * `rulesOk` of lean/OccaModel/Okl.lean (correspondence), together with the KernelIR that the
    harness extracts from occa's own statement tree vs. the IR the generator emitted.
"""
import os, sys
sys.path.insert(0, os.path.dirname(os.path.abspath(__file__)))
from vlib import *
import okl_common as G

META = {
    "technique": "Lean model of okl::kernelIsValid / oklForStatement on a loop-structure IR, proved equivalent to a declarative rule list; "
                 "valid kernels and single-rule mutations through all seven translators in-process",
    "category": "proof",
    "level_text": "rulesOk = true <-> RulesSpec proved for all kernels (Lean); the validation call is the same function in all seven "
                  "translators (source-structure fact re-extracted on every run); success flags of the real translators agree with the "
                  "model and with the property's demand on generated kernels and single-rule mutations",
    "level_note": "the IR abstracts statements to their kind; expression-level checks (what counts as a constant) are read off occa's "
                  "own AST by the harness",
    "design_ref": "DESIGN.md section 4, C20/C21/C22",
}

TAGS = {}      # op text -> which rule the mutation broke (for reports)
ACCEPT = "1111111"
REJECT = "0000000"


def corpus():
    """minimised past failures / defect replays, built from explicit trees so that the IR is exact"""
    import random
    out = []
    r = random.Random(20260921)

    def base(two_sections=False, shared=False):
        secs = [G.simple_inner(r, "i", 4, kids=[G.Stmt("out[o * 4 + i] = in[i]")])]
        if two_sections:
            secs.append(G.simple_inner(r, "j", 4, kids=[G.Stmt("out[o * 4 + j] += 1", basic=True)]))
        o = G.Okl("outer", G.Hdr("o", "int", 0, "N", "<", "++v", bound_is_const=False), secs)
        return G.Kernel("k", ["const int N", "const int M", "const int *in", "int *out", "int *acc"], [o])

    # F60: constant zero step
    K = base(); lp = K.body[0].kids[0]; lp.raw, lp.raw_ir = "int i = 0; i < 8; i += 0", "k,0,k,lt,8,k,add,0,l"
    out.append([G.t_op(K, REJECT)])
    # F61: continue inside a switch directly in an @inner loop
    K = base(); K.body[0].kids[0].kids.insert(0, G.Seq("switch", "switch (i) {", [G.Leaf("label", "case 0:"), G.Leaf("continue"),
                                                                                 G.Leaf("label", "default:"), G.Leaf("break")]))
    out.append([G.t_op(K, REJECT)])
    # F63: @outer @inner on one loop, with a proper @inner loop below
    K = base(); K.body[0].attr = "both"
    out.append([G.t_op(K, REJECT)])
    # F62: four nested @inner loops
    K = base(); lp = K.body[0].kids[0]
    for q in range(3):
        lp.kids = [G.simple_inner(r, "q%d" % q, 2, kids=lp.kids)]; lp = lp.kids[0]
    out.append([G.t_op(K, REJECT)])
    # F70: the update moves away from the bound
    K = base(); lp = K.body[0].kids[0]; lp.raw, lp.raw_ir = "int i = 0; i > N; ++i", "k,0,k,gt,?,k,inc,-,l"
    out.append([G.t_op(K, REJECT)])
    # every invalid loop-header shape once, on the @inner and on the @outer loop of the base kernel (the random
    # mutations draw one shape at a time; seeded change C22-m2 — `!=`/`==` accepted as the check operator — was
    # missed when the `!= 0; --v` shape was not drawn)
    for idx in range(len(G.BAD_HEADERS)):
        for which in (0, 1):
            K = base(); lp = K.body[0].kids[0] if which == 0 else K.body[0]
            text, code = G.BAD_HEADERS[idx]
            lp.raw, lp.raw_ir = text.replace("{v}", lp.hdr.var), code
            out.append([G.t_op(K, REJECT)])
    # sibling nested @outer loops with different @inner depth; the second of two kernels is fine, the first is not
    g1, b1 = G.sibling_outer_kernels(r)
    out.append([G.t_op(g1, ACCEPT), G.t_op(b1, REJECT)])
    Ka, Kb = base(), base(); Ka.name, Kb.name, Ka.ret = "ka", "kb", "int"
    out.append([G.t_op_multi([Ka, Kb], REJECT)])
    # accepted: break in a switch / sequential loop inside @inner; decreasing loops
    K = base(True); K.body[0].kids[1].kids.append(G.Seq("switch", "switch (j) {", [G.Leaf("label", "case 0:"), G.Leaf("break"),
                                                                                  G.Leaf("label", "default:"), G.Leaf("break")]))
    K.body[0].kids[1].kids.append(G.Seq("while", "while (0) {", [G.Leaf("continue")]))
    out.append([G.t_op(K, ACCEPT)])
    return out


def gen_history(r, tier):
    h = []
    K = G.base_kernel(r)
    h.append(G.t_op(K, ACCEPT))
    for _ in range(3 if tier == "quick" else 6):
        K2, tag = G.mutate(K, r)
        h.append(G.t_op(K2, REJECT))
        TAGS[h[-1]] = tag
    if r.random() < 0.5:
        K3 = copy_use(K, r)
        if K3 is not None:
            h.append(G.t_op(K3, "aaaaaaa"))
    if r.random() < 0.4:
        good, bad = G.sibling_outer_kernels(r)
        h.append(G.t_op(good, ACCEPT))
        h.append(G.t_op(bad, REJECT))
        TAGS[h[-1]] = "mismatch-across-sibling-outer"
    if r.random() < 0.4:
        # two kernels in one source: the verdict is the conjunction, whichever kernel is the broken one
        import copy
        A, B = copy.deepcopy(K), G.base_kernel(r)
        A.name, B.name = "ka", "kb"
        if A.pre:
            B.pre = ""          # one definition of the helper function per source
        Bm, tag = G.mutate(B, r)
        Am, _ = G.mutate(A, r)
        h.append(G.t_op_multi([A, B], ACCEPT))
        h.append(G.t_op_multi([Am, B] if r.random() < 0.5 else [A, Bm], REJECT))
        TAGS[h[-1]] = "multi-kernel:" + tag
    return h


def copy_use(K, r):
    import copy
    K3 = copy.deepcopy(K)
    return K3 if G.m_use_outside_inner(K3, r) else None


def main(argv):
    ck = Check("C22", argv)
    ck.rule = ("histories = one generated rule-conforming kernel (1-3 outer-most @outer nests, 1-3 nested @outer, 1-3 nested @inner, "
               "1-4 @inner sections in if/else/for/blocks, @shared/@exclusive, @atomic, local control flow with break/continue, header "
               "variants) followed by single-rule mutations of it (22 mutation kinds x random position); distinct by SHA-1 of the op "
               "text; non-trivial = the implementation produced a verdict")
    ck.assumptions = ["statements are abstracted to their kind and to the @shared/@exclusive variables they mention",
                      "what is a compile-time constant is decided by occa's canEvaluate() (read by the harness)"]
    ck.translate(["gen_okl"])
    ck.prove("C22")
    hb = ck.harness("h_okl")
    db = ck.driver("drv_okl")
    if ck.replay:
        hs = [read_replay(ck.replay)]
    else:
        n = 40 if ck.tier == "quick" else 1500
        hs = corpus() + [gen_history(ck.rng, ck.tier) for _ in range(n)]
    # occa's parsers leak by design ("TODO: Figure out which variables are being deleted"); leaks are not C22's business
    env = {"ASAN_OPTIONS": "detect_leaks=0:abort_on_error=0:exitcode=66:allocator_may_return_null=1"}
    ck.correspond(hb, db, hs, label="okl-rules", timeout=3600, env=env,
                  nontrivial=lambda h, impl: any(o.startswith("v=") for o in impl))
    ck.finish(META["level_text"])
