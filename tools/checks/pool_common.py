"""Shared generator / runner of the memory-pool checks C03, C04, C05 (one harness h_pool, one
model driver drv_pool, three mixes of operations)."""
from vlib import *

ALIGNS = [1, 8, 64, 128, 192]
NSLOT = 16
MAXLIVE = 12


class Sim:
    """what the generator remembers about a history (sizes and liveness only; never offsets)"""

    def __init__(self, r):
        self.r = r
        self.h = []
        self.align = {}      # pool -> alignment
        self.slots = {}      # slot -> dict(kind 'p'|'d', pool, size, noclone)
        self.started = False

    def emit(self, s):
        self.h.append(s)

    def free_slot(self):
        free = [k for k in range(NSLOT) if k not in self.slots]
        return self.r.choice(free) if free and len(self.slots) < MAXLIVE else None

    def live(self, kind=None, pool=None):
        return [k for k, v in self.slots.items() if (kind is None or v["kind"] == kind) and (pool is None or v["pool"] == pool)]

    def size_for(self, a):
        r = self.r
        n = r.randint(1, 4) * a + r.choice([0, 0, 0, 1, -1, a // 2, -(a // 2)])
        return max(1, n)

    def pool(self):
        return self.r.choice(sorted(self.align)) if self.align else None

    # ---- single operations -------------------------------------------------------------
    def op_reserve(self, p=None, n=None):
        p = self.pool() if p is None else p
        k = self.free_slot()
        if p is None or k is None:
            return False
        n = self.size_for(self.align[p]) if n is None else n
        self.emit("reserve %d %d %d" % (p, k, n))
        if n > 0:
            self.slots[k] = dict(kind="p", pool=p, size=n, noclone=False)
        return True

    def op_release(self, k=None):
        ks = self.live()
        if not ks:
            return False
        k = self.r.choice(ks) if k is None else k
        self.emit("%s %d" % (self.r.choice(["release", "release", "drop"]), k))
        del self.slots[k]
        return True

    def op_slice(self, j=None, valid=True):
        ks = self.live()
        k = self.free_slot()
        if not ks or k is None:
            return False
        j = self.r.choice(ks) if j is None else j
        sz = self.slots[j]["size"]
        r = self.r
        if valid:
            off = r.choice([0, r.randint(0, sz), r.randint(0, sz), sz])
            q = r.random()
            if q < 0.2:
                cnt, n = -1, sz - off
            else:
                n = r.choice([sz - off, r.randint(0, sz - off), r.randint(0, sz - off), 0 if q < 0.3 else max(0, min(sz - off, 1))])
                cnt = n
            self.emit("slice %d %d %d %d" % (k, j, off, cnt))
            v = dict(self.slots[j])
            v["size"] = n
            self.slots[k] = v
        else:
            q = r.random()
            if q < 0.4:
                off = r.randint(0, sz)
                self.emit("slice %d %d %d %d" % (k, j, off, sz - off + r.randint(1, 3)))   # off + count > size
            elif q < 0.7:
                self.emit("slice %d %d %d -1" % (k, j, sz + 1 + r.randint(0, 1)))          # count -1 beyond the end
            else:
                self.emit("slice %d %d %d %d" % (k, j, sz + r.randint(1, 5), 0))
        return True

    def op_resize(self, p=None):
        p = self.pool() if p is None else p
        if p is None:
            return False
        a = self.align[p]
        r = self.r
        q = r.random()
        if q < 0.35:
            n = r.randint(0, 6) * a
        elif q < 0.6:
            n = r.randint(0, 14) * a + r.choice([0, 1, a // 2])
        elif q < 0.8:
            n = r.randint(0, 2 * a)
        else:
            n = r.randint(4, 16) * a
        self.emit("resize %d %d" % (p, n))
        return True

    def op_shrink(self, p=None):
        p = self.pool() if p is None else p
        if p is None:
            return False
        self.emit("shrink %d" % p)
        return True

    def op_align(self, p=None, a=None):
        p = self.pool() if p is None else p
        if p is None:
            return False
        r = self.r
        if a is None:
            a = r.choice(ALIGNS + [0, 2, 3, 24, 100]) if r.random() < 0.3 else r.choice(ALIGNS)
        self.emit("align %d %d" % (p, a))
        if a > 0:
            self.align[p] = a
        return True

    def op_write(self, valid=True):
        ks = self.live()
        if not ks:
            return False
        k = self.r.choice(ks)
        sz = self.slots[k]["size"]
        r = self.r
        if valid:
            off = r.choice([0, r.randint(0, sz)])
            ln = r.choice([sz - off, r.randint(0, sz - off)])
        else:
            off = r.randint(0, sz)
            ln = sz - off + r.randint(1, 4)
        self.emit("write %d %d %d %d" % (k, off, ln, r.randint(0, 255)))
        return True

    def op_read(self):
        ks = self.live()
        if not ks:
            return False
        self.emit("read %d" % self.r.choice(ks))
        return True

    def op_dev_alloc(self):
        k = self.free_slot()
        if k is None:
            return False
        r = self.r
        n = r.choice([0, 1, 7, 40, 64, 100, 128, 300]) if r.random() < 0.5 else r.randint(1, 400)
        q = r.random()
        noclone = False
        if q < 0.3:
            self.emit("malloc %d %d" % (k, n))
        elif q < 0.5:
            self.emit("mallocsrc %d %d %d" % (k, n, r.randint(0, 255)))
        elif q < 0.8:
            own = r.randint(0, 1)
            self.emit("mallochost %d %d %d %d" % (k, n, own, r.randint(0, 255)))
            noclone = (own == 0)
        else:
            self.emit("wrap %d %d %d" % (k, n, r.randint(0, 255)))
            if n == 0:
                self.slots[k] = dict(kind="d", pool=-1, size=0, noclone=False)
        if n > 0:
            self.slots[k] = dict(kind="d", pool=-1, size=n, noclone=noclone)
        return True

    def op_clone(self):
        # cloning a use_host_pointer memory that does not own its pointer leaks the copy in
        # occa (outside C05's accounting statement, see design-notes/C05.md): steered around
        ks = [k for k in self.live() if not self.slots[k]["noclone"]]
        k = self.free_slot()
        if not ks or k is None:
            return False
        j = self.r.choice(ks)
        self.emit("clone %d %d" % (k, j))
        if self.slots[j]["size"] > 0:
            self.slots[k] = dict(kind="d", pool=-1, size=self.slots[j]["size"], noclone=False)
        return True

    def op_pfree(self):
        p = self.pool()
        if p is None:
            return False
        self.emit("pfree %d" % p)
        for k in self.live(pool=p):
            del self.slots[k]
        del self.align[p]
        return True

    def op_pool(self):
        free = [p for p in (0, 1) if p not in self.align]
        if not free:
            return False
        p = self.r.choice(free)
        self.emit("pool %d" % p)
        self.align[p] = 128
        return True


def gen_history(r, flavour):
    """flavour: 'layout' (C03), 'account' (C04), 'device' (C05)"""
    s = Sim(r)
    if r.random() < 0.25:
        s.emit("dev O")
    s.op_pool()
    if r.random() < (0.5 if flavour == "device" else 0.2):
        s.op_pool()
    for p in sorted(s.align):
        if r.random() < 0.75:
            s.op_align(p, r.choice(ALIGNS))
    for p in sorted(s.align):
        if r.random() < 0.45:
            s.emit("resize %d %d" % (p, r.randint(3, 16) * s.align[p]))     # slack: later requests can reuse gaps
    mode = r.random()
    # ---- scripted openings that build the interesting shapes ---------------------------
    if flavour != "device" or r.random() < 0.3:
        p = s.pool()
        a = s.align[p]
        if mode < 0.35:
            # fragmentation: k equal blocks, free a subset, ask for more than any hole
            k = r.randint(3, 8)
            u = r.randint(1, 2)
            first = len(s.slots)
            ks = []
            for _ in range(k):
                if s.op_reserve(p, u * a - r.choice([0, 0, 1, a // 2]) if u * a > 1 else 1):
                    ks.append([x for x in s.slots][-1])
            r.shuffle(ks)
            for kk in ks[:r.randint(1, max(1, len(ks) - 1))]:
                if r.random() < 0.3:
                    s.op_slice(kk)
                s.op_release(kk)
            s.op_reserve(p, (u + r.randint(0, 2)) * a + r.choice([0, 1, -1]) if a > 1 else u + r.randint(1, 3))
        elif mode < 0.65:
            # slices that outlive their parent, at unaligned places
            s.op_reserve(p, r.randint(1, 4) * a + r.choice([0, 1, a // 2]))
            root = [x for x in s.slots][-1]
            for _ in range(r.randint(1, 4)):
                s.op_slice(root)
            if r.random() < 0.5:
                s.op_reserve(p)
            if r.random() < 0.8:
                s.op_release(root)
            if r.random() < 0.5:
                s.op_reserve(p, r.choice([1, a, 2 * a, max(1, a // 2)]))
        elif mode < 0.72:
            # zero-sized twins: empty slices of different blocks end on one offset after packing (F06c);
            # both creation orders, because the failure depends on the address order of the objects
            ks = []
            for _ in range(r.randint(2, 3)):
                if s.op_reserve(p, r.choice([a, a, 2 * a])):
                    ks.append([x for x in s.slots][-1])
            order = list(ks)
            r.shuffle(order)
            for kk in order:
                k2 = s.free_slot()
                if k2 is not None:
                    off = r.choice([0, 0, s.slots[kk]["size"]])
                    s.emit("slice %d %d %d 0" % (k2, kk, off))
                    v = dict(s.slots[kk]); v["size"] = 0; s.slots[k2] = v
            for kk in ks:
                if r.random() < 0.8:
                    s.op_release(kk)
            r.choice([s.op_shrink, s.op_resize, s.op_align])(p)
        elif mode < 0.80:
            # pool without reservations whose size is not a multiple of the new alignment
            s.op_resize(p)
            s.op_align(p, r.choice(ALIGNS))
            s.op_reserve(p)
    n = r.randint(8, 40)
    for _ in range(n):
        q = r.random()
        if flavour == "layout":
            table = [(0.24, s.op_reserve), (0.40, s.op_release), (0.52, s.op_slice), (0.58, s.op_resize), (0.63, s.op_shrink),
                     (0.69, s.op_align), (0.83, s.op_write), (0.87, s.op_read), (0.89, lambda: s.op_slice(valid=False)),
                     (0.91, lambda: s.op_write(valid=False)), (0.94, s.op_dev_alloc), (0.96, s.op_clone), (0.975, s.op_pfree), (1.0, s.op_pool)]
        elif flavour == "account":
            table = [(0.22, s.op_reserve), (0.42, s.op_release), (0.58, s.op_slice), (0.68, s.op_resize), (0.74, s.op_shrink),
                     (0.84, s.op_align), (0.88, s.op_write), (0.91, lambda: s.op_slice(valid=False)), (0.93, lambda: s.op_reserve(n=0)),
                     (0.95, s.op_dev_alloc), (0.975, s.op_pfree), (1.0, s.op_pool)]
        else:
            table = [(0.16, s.op_reserve), (0.36, s.op_release), (0.42, s.op_slice), (0.50, s.op_resize), (0.55, s.op_shrink),
                     (0.60, s.op_align), (0.80, s.op_dev_alloc), (0.88, s.op_clone), (0.91, s.op_write), (0.95, s.op_pfree), (1.0, s.op_pool)]
        for lim, f in table:
            if q < lim:
                f()
                break
    if r.random() < 0.7:
        if r.random() < 0.5:
            # release everything one by one first: reserved() must come back to 0
            for k in list(s.slots):
                s.op_release(k)
        s.emit("freeall")
    return s.h


# minimised / canonical histories, run first by all three checks
CORPUS = [
    # F06  fragmented pool, size == reserved + alignedBytes: the new block must not land on C
    ["pool 0", "reserve 0 0 128", "reserve 0 1 128", "reserve 0 2 128", "reserve 0 3 128", "release 1", "release 3",
     "reserve 0 4 256", "read 2", "freeall"],
    # F06b packing two slice remnants that share one aligned unit
    ["pool 0", "reserve 0 0 128", "slice 1 0 10 10", "slice 2 0 100 10", "release 0", "reserve 0 3 128", "read 1", "read 2", "freeall"],
    ["pool 0", "reserve 0 0 128", "reserve 0 5 128", "slice 1 0 10 10", "slice 2 0 100 10", "release 0", "release 5",
     "resize 0 128", "shrink 0", "freeall"],
    # F06c two zero-sized slices packed onto the same offset (both creation orders: the failure needs
    #      the address order of the two memory objects to be opposite to their offsets)
    ["pool 0", "align 0 8", "reserve 0 0 8", "reserve 0 1 8", "slice 3 1 0 0", "slice 2 0 0 0", "release 0", "release 1",
     "resize 0 8", "release 3", "release 2", "freeall"],
    ["pool 0", "align 0 8", "reserve 0 0 8", "reserve 0 1 8", "slice 2 0 0 0", "slice 3 1 0 0", "release 0", "release 1",
     "align 0 64", "release 2", "release 3", "freeall"],
    # F07  slice outlives a three-unit parent
    ["pool 0", "reserve 0 0 384", "slice 1 0 0 128", "release 0", "release 1", "freeall"],
    ["pool 0", "reserve 0 0 384", "slice 1 0 128 128", "release 0", "reserve 0 2 100", "release 1", "release 2"],
    # F07b size not a multiple of the alignment
    ["pool 0", "resize 0 128", "align 0 192", "reserve 0 0 128", "reserve 0 1 1", "freeall"],
    # F08  use_host_pointer
    ["mallochost 0 40 0 7", "release 0", "freeall"],
    ["mallochost 0 40 1 7", "slice 1 0 8 8", "release 0", "write 1 0 8 3", "release 1", "freeall"],
    # the script of tests/src/core/memoryPool.cpp (alignment 20)
    ["pool 0", "align 0 20", "resize 0 40", "reserve 0 0 40", "slice 1 0 0 20", "slice 2 0 20 -1", "reserve 0 3 40",
     "release 1", "release 2", "release 3", "reserve 0 3 40", "reserve 0 4 20", "reserve 0 5 20", "release 0", "release 4",
     "reserve 0 0 80", "release 3", "shrink 0", "release 5", "release 0", "pfree 0", "freeall"],
    # errors leave the state alone
    ["pool 0", "reserve 0 0 100", "resize 0 64", "align 0 0", "slice 1 0 50 51", "slice 1 0 101 -1", "write 0 90 11 1", "slice 1 0 100 -1", "freeall"],
    # zero-sized slices, alignment changes with merged blocks
    ["pool 0", "align 0 8", "reserve 0 0 8", "reserve 0 1 8", "reserve 0 2 5", "slice 3 2 5 0", "release 2", "align 0 64", "align 0 1", "shrink 0", "freeall"],
    # two pools and device memory on an OpenMP device
    ["dev O", "pool 0", "pool 1", "reserve 0 0 10", "reserve 1 1 300", "malloc 2 64", "clone 3 1", "wrap 4 16 9", "clone 5 4",
     "pfree 0", "resize 1 1000", "release 1", "shrink 1", "freeall"],
]


def parse_obs(line):
    """observation line -> (result, {pool: (align, size, reserved, n)}, {slot: (where, off, size)})"""
    if " | M" not in line:
        return None
    res = line.split(" |")[0].strip()
    pools = {int(m[0]): tuple(int(x) for x in m[1:]) for m in re.findall(r"P(\d) a=(\d+) s=(\d+) r=(\d+) n=(\d+)", line)}
    slots = {int(m[0]): (m[1], int(m[2]), int(m[3])) for m in re.findall(r" (\d+):(d|\d):(\d+):(\d+):\d+", line)}
    return res, pools, slots


def path_coverage(hs, impl):
    c = dict(reserve_first=0, reserve_in_place=0, reserve_grow=0, reserve_pack_same_size=0, reserve_moved_others=0,
             resize_moved=0, shrink_moved=0, align_moved=0, errors=0, zero_size_memories=0)
    for h, obs in zip(hs, impl):
        prev = None
        for op, line in zip(h, obs):
            cur = parse_obs(line)
            if cur is None:
                prev = None
                continue
            if cur[0] == "err":
                c["errors"] += 1
            t = op.split()
            if prev is not None and cur[0] == "ok" and t[0] in ("reserve", "resize", "shrink", "align"):
                p = int(t[1])
                moved = any(k in cur[2] and cur[2][k][0] == str(p) and cur[2][k][1] != v[1]
                            for k, v in prev[2].items() if v[0] == str(p))
                if t[0] == "reserve" and p in prev[1] and p in cur[1]:
                    if prev[1][p][3] == 0:
                        c["reserve_first"] += 1
                    elif cur[1][p][1] > prev[1][p][1]:
                        c["reserve_grow"] += 1
                    elif moved:
                        c["reserve_pack_same_size"] += 1
                    else:
                        c["reserve_in_place"] += 1
                    if moved:
                        c["reserve_moved_others"] += 1
                elif moved:
                    c[t[0] + "_moved"] += 1
            if cur[0] == "ok" and t[0] == "slice" and t[4] in ("0",):
                c["zero_size_memories"] += 1
            prev = cur
    return c


def nontrivial(h, impl):
    return sum(1 for o in impl if o.startswith("ok ")) >= 3


def run_pool_check(pid, meta, flavour, argv, quick_n, thorough_n):
    ck = Check(pid, argv)
    ck.rule = ("histories of memory-pool and device-memory operations generated from the check's seed: pools with alignments "
               "{1,8,64,128,192} (also changed in mid-history, also 0/2/3/24/100), up to 12 live memory objects, request sizes "
               "{1..4}*alignment +- {0,1,alignment/2}, scripted openings that build fragmentation (k equal blocks, a subset "
               "released, a request larger than every hole), slices at unaligned offsets that outlive their parent, zero-sized "
               "slices, pools whose size is not a multiple of a new alignment; invalid requests (slice/copy out of range, resize "
               "below reserved(), alignment 0, reserve of 0 bytes); malloc / malloc with source / use_host_pointer with and "
               "without own_host_pointer / wrapMemory / clone, slices of device memory, pools freed with live reservations; a "
               "history counts as non-trivial if at least three operations succeeded; distinct by SHA-1 of the op text")
    ck.assumptions = ["Serial and OpenMP modes (the only backends built here; the pool logic is mode independent, setPtr/memcpy are per mode)",
                      "dim_t arithmetic does not overflow (sizes below 2^31)",
                      "one occa::memory handle per memory object; detach() excluded",
                      "slice offsets are non-negative (negative offsets on inner slices are C02's finding)"]
    ck.translate(["gen_pool"])
    ck.prove(pid)
    hb = ck.harness("h_pool")
    db = ck.driver("drv_pool")
    if ck.replay:
        hs = [read_replay(ck.replay)]
    else:
        n = quick_n if ck.tier == "quick" else thorough_n
        hs = CORPUS + [gen_history(ck.rng, flavour) for _ in range(n)]
    ck.correspond(hb, db, hs, label="pool", nontrivial=nontrivial, timeout=1500 if ck.tier == "quick" else 7200,
                  ubsan_is_violation=r"memoryPool\.|serial/(memory|buffer|device)\.|core/(memory|buffer|device)\.")
    cnt = ck.cov["counters"]
    # path coverage, measured on the implementation's own observations of a sample of the histories:
    # which way each reserve went, how often packing really moved live reservations
    if hb and not ck.replay:
        sample = hs[:len(CORPUS) + 150]
        impl, _, _ = ck.run_impl(hb, sample, timeout=1500)
        for k, v in path_coverage(sample, impl).items():
            cnt["path_" + k] = v
    ops = [o for h in hs for o in h]
    for name in ("reserve", "release", "drop", "slice", "resize", "shrink", "align", "write", "read", "malloc", "mallocsrc",
                 "mallochost", "wrap", "clone", "pfree", "freeall"):
        cnt["op_" + name] = sum(1 for o in ops if o.split()[0] == name)
    ck.finish(meta["level_text"])
