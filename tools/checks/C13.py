"""C13 — Preprocessing agrees with the C preprocessor on the supported subset."""
from vlib import *

META = {
    "technique": "Lean 4 theorems over a model of preprocessor_t (conditional-directive status machine, #if evaluation in intmax_t/uintmax_t, macro expansion with disable-until-end markers) against reference semantics (C nested-group rule, C evaluation, hide-set expansion); three-way differential run: model = real preprocessor_t (correspondence), preprocessor_t = system `cpp -P -undef` (oracle), reference model = cpp (validation of the specification side)",
    "category": "proof",
    "level_text": "Proof, for every well-nested directive list of any depth, that the status machine keeps exactly the lines of the C nested-group rule, evaluates exactly the conditions C evaluates (so an #elif after a taken group or inside a skipped group may be malformed or trap), and ends in its initial state (C13_lines, C13_stack_balanced); for ANY directive sequence it never pops an empty stack or the init() entry (C13_never_pops_base). Proof that the repaired evaluator computes the C value of every #if expression of the class S64 and takes the same branch (C13_eval_agrees_with_C) and never touches the skipped operand of && || ?: (C13_no_trap_guarded). Macro expansion: fuel monotonicity; for all tables of object-like macros (cycles included) termination and token-for-token agreement with the C standard's hide-set algorithm (C13_expand_terminates_partial, C13_expand_agrees_partial); the full statements are refuted with function-like witnesses (non-termination of f(x)->g(x), g(x)->f(x); missing blue paint), which are recorded findings. Tied to the code by regenerated flags/shape facts/operator table and a seeded three-way differential run (real preprocessor_t = Lean model; preprocessor_t = system cpp; Lean reference semantics = cpp) on generated translation units.",
    "level_note": "Trusted: Lean kernel; translate/gen_pp.py (regex extraction of the ppStatus flags, the operator precedence table and the shape of processElif / lineIsTrue / binaryOpNode::evaluate / macroArgument::expand / operatorIsLeftUnary / applyFasterOperators); the hand-written models of preprocessor_t, macro_t, primitive operators and the expression parser in OccaModel/Cpp*.lean (validated by the correspondence run, not proved equal to the C++); gcc's cpp as the reference preprocessor; tokenisation is outside C13 (units are generated as token lists). With function-like macros neither termination nor agreement is proved (and neither holds in general: findings F62, F63, F65, F67, F68); on the generated classes (acyclic tables with nested calls; self-reference without macro names in arguments) agreement is checked by the differential run only. Expressions outside S64 (bool-typed operands of arithmetic, shifts) are checked only.",
    "design_ref": "DESIGN.md section 4, C13",
}

# ------------------------------------------------------------------------------------------ generator
# Names.  Text macros have arbitrary token bodies; expression macros have typed integer bodies and may be
# used inside #if.  Arity is fixed per name so that invocations stay well formed across redefinitions.
OBJ = ["A", "B", "C", "D"]
FUN = {"f": 1, "g": 2, "h": 3}          # fixed arity
VAR = {"v": 1, "w": 0}                  # named parameters before `...`
PLAIN = ["x", "y", "z", "p", "q"]
EOBJ_S = ["SA", "SB"]                    # signed expression macros
EOBJ_U = ["UA"]                          # unsigned expression macro
EFUN = {"ef": 1, "eg": 2}                # signed -> signed
PUNCT = ["+", "-", "*", ";", "[", "]", "=", "<", "1", "2", "42"]

S_LITS = ["0", "1", "2", "3", "7", "10", "255", "1000", "65535", "65536", "2147483647", "2147483648", "4294967295",
          "4294967296", "1099511627776", "9223372036854775807", "0x7F", "0xFF", "0x7FFFFFFF", "0x80000000", "0xFFFFFFFF",
          "0x100000000", "0x7FFFFFFFFFFFFFFF", "017", "0777", "1L", "5l", "12LL", "100ll", "2147483648L", "0x10L",
          "0b101", "0B11"]
U_LITS = ["0u", "1u", "2U", "7u", "4294967295u", "4294967296u", "1UL", "3ul", "10ULL", "6ull", "5lu", "8LU", "0xFFu",
          "0xFFFFFFFFu", "0xFFFFFFFFFFFFFFFF", "18446744073709551615u", "0x8000000000000000", "0xFFFFFFFFFFFFFFFFull",
          "9223372036854775808u", "0x80000000u"]
SMALL = ["0", "1", "2", "3", "5", "8", "13", "31", "32", "33", "40", "62"]


class Gen:
    def __init__(self, r, feat):
        self.r = r
        self.feat = feat            # dict of feature switches (steering around known findings)
        self.defined = set()        # names that may be defined at this point (over-approximation)
        self.in_macro_body = False  # `defined` produced by a macro expansion is undefined behaviour in C: never there
        # Steering around the recorded macro-expansion findings F62/F63/F65 (see design-notes/C13.md):
        #   mode "acyclic": a macro body mentions only macros of lower rank (random order per unit), so no
        #                   macro is ever met while it is disabled; arguments may nest arbitrarily.
        #   mode "selfref": object-like macros may refer to themselves and to each other in cycles, function-like
        #                   macros only to themselves; arguments then contain no macro names.
        self.mode = "acyclic" if r.random() < 0.65 else "selfref"
        names = OBJ + list(FUN) + list(VAR)
        r.shuffle(names)
        self.rank = {n: i for i, n in enumerate(names)}

    def lower(self, pool, self_name):
        """macros a body of `self_name` may mention"""
        if self_name is None:
            return list(pool)
        if self.mode == "acyclic":
            return [n for n in pool if self.rank[n] < self.rank[self_name]]
        if self_name in OBJ:
            return [n for n in pool if n in OBJ]          # cycles among object-like macros
        return []

    # ---- typed #if expressions: 'S' signed, 'U' unsigned, 'B' boolean(int) -------------------------
    def lit(self, t):
        r = self.r
        if t == "S":
            return [r.choice(S_LITS)]
        return [r.choice(U_LITS)]

    def atom(self, t):
        r = self.r
        k = r.random()
        if t == "S":
            if k < 0.55:
                return self.lit("S")
            if k < 0.65:
                return [r.choice(PLAIN + ["UNDEF1"])]          # identifiers evaluate to 0
            if k < 0.80:
                return [r.choice(EOBJ_S)]
            if k < 0.90:
                n = r.choice(list(EFUN))
                args = []
                # `defined(X)` inside a macro ARGUMENT: cpp macro-expands X first, OCCA does not (finding F69)
                saved, self.in_macro_body = self.in_macro_body, True
                for i in range(EFUN[n]):
                    if i:
                        args.append(",")
                    args += self.expr("S", 1)
                self.in_macro_body = saved
                return [n, "("] + args + [")"]
            return ["("] + self.expr("S", 1) + [")"]
        if t == "U":
            if k < 0.7:
                return self.lit("U")
            if k < 0.85:
                return [r.choice(EOBJ_U)]
            return ["("] + self.expr("U", 1) + [")"]
        # B
        if k < 0.35 and not self.in_macro_body:
            n = r.choice(OBJ + list(FUN) + EOBJ_S + EOBJ_U + PLAIN[:2])
            if self.feat.get("defined_bare") and r.random() < 0.4:
                return ["defined", n]                        # `defined X` (F64 repaired)
            return ["defined", "(", n, ")"]
        return ["("] + self.expr("B", 1) + [")"]

    def paren(self, e):
        return ["("] + e + [")"]

    def operand(self, t, d, after_ambiguous=False):
        """a sub-expression usable as an operand of a binary operator (parenthesised unless atomic)"""
        r = self.r
        if d <= 0 or r.random() < 0.35:
            return self.atom(t)
        if r.random() < 0.25 and t != "B":
            # unary; directly after + - * & it must be parenthesised (expressionParser defect N3, C15's)
            u = self.unary(t, d - 1)
            return self.paren(u) if (after_ambiguous and not self.feat["unary_after_binary"]) or r.random() < 0.5 else u
        return self.paren(self.expr(t, d - 1))

    def unary(self, t, d):
        r = self.r
        k = r.random()
        if k < 0.4:
            return ["-"] + self.operand(t, d)
        if k < 0.5:
            return ["+"] + self.operand(t, d)
        if k < 0.8:
            return ["~"] + self.lit(t)            # ~ only on literals (primitive::tilde(bool) is `!`, C14's finding)
        return ["-", "-"] + self.lit(t) if self.feat["unary_after_binary"] else ["-"] + self.lit(t)

    def expr(self, t, d):
        r = self.r
        if d <= 0:
            return self.atom(t)
        k = r.random()
        if t in ("S", "U"):
            if k < 0.15:
                return self.atom(t)
            if k < 0.25:
                return self.unary(t, d - 1)
            if k < 0.33:
                # shift: literal left operand, small signed literal count (shift typing is C14's F20)
                return self.lit(t) + [r.choice(["<<", ">>"])] + [r.choice(SMALL)]
            if k < 0.43:
                c = self.operand("B", d - 1)
                a, b = self.operand(t, d - 1), self.operand(t, d - 1)
                if r.random() < 0.3 and self.feat["guards"]:
                    b = self.paren(["1", "/", "0"]) if r.random() < 0.5 else self.paren(["1", "%", r.choice(["0", "UNDEF1"])])
                    c = self.paren(["1", "<", "2"]) if r.random() < 0.5 else ["1"]
                if self.feat.get("nested_ternary") and r.random() < 0.4:
                    # a ? b : c ? d : e   and   a ? b ? c : d : e   (right-to-left grouping)
                    c2 = self.operand("B", d - 1)
                    x, y = self.atom(t), self.atom(t)
                    inner = c2 + ["?"] + x + [":"] + y
                    return self.paren(c + ["?"] + a + [":"] + inner) if r.random() < 0.5 else \
                        self.paren(c + ["?"] + inner + [":"] + b)
                return self.paren(c + ["?"] + a + [":"] + b)
            op = r.choice(["+", "-", "*", "/", "%", "&", "|", "^", "+", "-"])
            lt = t if r.random() < 0.7 else ("S" if t == "U" else "S")
            a = self.operand(lt, d - 1)
            if op in ("/", "%"):
                b = self.lit(t) if r.random() < 0.8 else self.operand(t, d - 1)
            else:
                b = self.operand(t, d - 1, after_ambiguous=op in "+-*&")
            if t == "U" and lt == "S" and r.random() < 0.5:
                a, b = b, a
                if op in ("/", "%"):
                    op = "+"
                if a and a[0] in ("-", "+", "~") and not self.feat["unary_after_binary"]:
                    pass
                if b and b[0] in ("-", "+", "~") and op in "+-*&" and not self.feat["unary_after_binary"]:
                    b = self.paren(b)
            return a + [op] + b
        # B
        if k < 0.15:
            return self.atom("B")
        if k < 0.25:
            return ["!"] + self.operand(r.choice("SUB"), d - 1)
        if k < 0.65:
            op = r.choice(["<", ">", "<=", ">=", "==", "!="])
            t1 = r.choice("SSU")
            t2 = t1 if r.random() < 0.7 else r.choice("SU")
            return self.operand(t1, d - 1) + [op] + self.operand(t2, d - 1)
        op = r.choice(["&&", "||"])
        if r.random() < 0.12:
            # the VALUE of && / || is 0 or 1 whatever the operands are (seeded change C13-m3 returned the
            # left operand of a short-circuited ||): compare it with a number, left operand not 0/1
            big = r.choice(["2", "3", "0x10", "7"])
            other = self.operand(r.choice("BS"), d - 1)
            val = self.paren([big, op] + (self.paren(other) if len(other) > 1 else other))
            return val + [r.choice(["==", "!=", "<", ">="]), r.choice(["1", "2", "0"])]
        a = self.operand(r.choice("BBS"), d - 1)
        b = self.operand(r.choice("BBS"), d - 1)
        if self.feat["guards"] and r.random() < 0.35:
            # guarded division: the right operand must not be evaluated
            trap = r.choice([["1", "/", "0"], ["1", "%", "0"], ["7", "/", "(", "2", "-", "2", ")"], ["1", "/", "UNDEF1"]])
            a = ["0"] if op == "&&" else [r.choice(["1", "2", "0x10"])]
            if r.random() < 0.3:
                a = self.paren(["1", ">", "2"]) if op == "&&" else self.paren(["1", "<", "2"])
            b = self.paren(trap)
        return a + [op] + b

    def cond(self):
        t = self.r.choice("BBBSU")
        return self.expr(t, self.r.choice([1, 2, 2, 3, 3, 4]))

    # ---- macro definitions ---------------------------------------------------------------------------
    def expr_macro_def(self):
        self.in_macro_body = True
        try:
            return self.expr_macro_def_()
        finally:
            self.in_macro_body = False

    def expr_macro_def_(self):
        r = self.r
        k = r.random()
        if k < 0.35:
            n = r.choice(EOBJ_S)
            body = self.lit("S") if r.random() < 0.5 else self.paren(self.expr("S", 2))
            self.defined.add(n)
            return "D %s : %s" % (n, " ".join(body))
        if k < 0.55:
            n = r.choice(EOBJ_U)
            body = self.lit("U") if r.random() < 0.5 else self.paren(self.expr("U", 2))
            self.defined.add(n)
            return "D %s : %s" % (n, " ".join(body))
        n = r.choice(list(EFUN))
        ps = ["a", "b"][:EFUN[n]]
        body = ["(", "(", ps[0], ")", r.choice(["+", "-", "*", "&", "|"])] + (
            ["(", ps[1], ")"] if len(ps) > 1 else self.lit("S")) + [")"]
        if r.random() < 0.3:
            body = ["(", "(", ps[0], ")", r.choice(["<", "==", ">="]), "(", ps[-1], ")", "?"] + self.lit("S") + [":"] + \
                   ["(", ps[0], ")", ")"]
        self.defined.add(n)
        return "F %s %s : %s" % (n, " ".join(ps), " ".join(body))

    def body_tokens(self, params, self_name, depth=0):
        """token soup for a text macro body: parameters, plain identifiers, other macros (possibly invoked),
           the macro's own name (direct self reference, mode selfref only)"""
        r = self.r
        out = []
        objs = self.lower(OBJ, self_name)
        for _ in range(r.choice([0, 1, 1, 2, 2, 3, 4])):
            k = r.random()
            if params and k < 0.35:
                out.append(r.choice(params))
            elif k < 0.5:
                out.append(r.choice(PLAIN + PUNCT))
            elif k < 0.62 and self.mode == "selfref":
                out.append(self_name)
                if self_name in FUN and r.random() < 0.6:
                    out += ["("] + self.args(FUN[self_name], params, depth + 1, owner=self_name) + [")"]
            elif k < 0.8 and objs:
                out.append(r.choice(objs))
            else:
                out += self.invocation(params, depth + 1, owner=self_name)
        # a body must not end in a bare function-like name other than through an invocation: fine by construction
        return out

    def args(self, n, params, depth, variadic_extra=0, owner=None):
        out = []
        total = n + variadic_extra
        # sometimes one of the separating commas sits inside [ ] or { }: in C only parentheses protect a
        # comma, so `F(x[1, 2])` has TWO arguments (seeded change C13-m1: brackets counted as nesting)
        wrap = self.r.randrange(1, total) if (total >= 2 and self.r.random() < 0.12) else None
        brk = self.r.choice([("[", "]"), ("{", "}")])
        for i in range(total):
            if i:
                out.append(",")
            if wrap is not None and i == wrap - 1:
                out += [self.r.choice(PLAIN), brk[0]]
            out += self.arg(params, depth, owner)
            if wrap is not None and i == wrap:
                out.append(brk[1])
        return out

    def arg(self, params, depth, owner=None):
        r = self.r
        out = []
        plain_only = self.mode == "selfref"
        objs = self.lower(OBJ, owner)
        for _ in range(r.choice([1, 1, 1, 2, 3])):
            k = r.random()
            if params and k < 0.3:
                out.append(r.choice(params))
            elif k < 0.6 or plain_only:
                out.append(r.choice(PLAIN + ["1", "2", "+", "*"]))
            elif k < 0.75 and objs:
                out.append(r.choice(objs))
            elif k < 0.85 and depth < 3:
                out += self.invocation(params, depth + 1, owner)
            elif k < 0.92:
                out += ["("] + self.arg(params, depth + 1, owner) + [",", r.choice(PLAIN)] + [")"]   # protected comma
            else:
                fl = self.lower(list(FUN), owner)
                out.append(r.choice(fl) if fl else "x")     # bare function-like name as an argument
                out.append(r.choice(PLAIN))                 # ... never directly before a macro name (F65)
        # an argument whose tokens all expand to nothing counts as a MISSING argument in OCCA (finding F68):
        # every generated argument keeps at least one token that is not a macro at its top level
        depth_, plain = 0, False
        for t in out:
            if t == "(":
                depth_ += 1
            elif t == ")":
                depth_ -= 1
            elif depth_ == 0 and (t in PLAIN or t in ("1", "2", "+", "*") or (params and t in params)):
                plain = True
        if not plain:
            out.append(r.choice(PLAIN))
        return out

    def invocation(self, params, depth, owner=None):
        r = self.r
        funs = self.lower(list(FUN), owner)
        vars_ = self.lower(list(VAR), owner) if self.feat["variadic"] else []
        if depth > 3 or not (funs or vars_):
            return [r.choice(PLAIN)]
        if vars_ and (not funs or r.random() < 0.3):
            n = r.choice(vars_)
            extra = r.choice([1, 1, 2, 3])
            return [n, "("] + self.args(VAR[n], params, depth, extra, owner) + [")"]
        n = r.choice(funs)
        return [n, "("] + self.args(FUN[n], params, depth, owner=owner) + [")"]

    def text_macro_def(self):
        r = self.r
        k = r.random()
        if k < 0.4:
            n = r.choice(OBJ)
            self.defined.add(n)
            return "D %s : %s" % (n, " ".join(self.body_tokens([], n)))
        if k < 0.8:
            n = r.choice(list(FUN))
            ps = ["a", "b", "c"][:FUN[n]]
            self.defined.add(n)
            return "F %s %s : %s" % (n, " ".join(ps), " ".join(self.body_tokens(ps, n)))
        n = r.choice(list(VAR))
        ps = ["a", "b"][:VAR[n]]
        body = self.body_tokens(ps, n)
        # a comma produced by an expansion inside an argument splits the argument (finding F67): in generated
        # units the variable arguments are always substituted inside parentheses
        body = [b for b in body if b != "__VA_ARGS__"]
        at = r.randint(0, len(body))
        body[at:at] = r.choice([["(", "__VA_ARGS__", ")"], ["x", "(", "__VA_ARGS__", ")"], ["(", "y", ",", "__VA_ARGS__", ")"]])
        self.defined.add(n)
        return "F %s %s : %s" % (n, " ".join(ps + ["..."]), " ".join(body))

    def text_line(self):
        r = self.r
        out = []
        for _ in range(r.choice([1, 1, 2, 2, 3, 4, 5])):
            k = r.random()
            if k < 0.3:
                out.append(r.choice(PLAIN + PUNCT))
            elif k < 0.5:
                out.append(r.choice(OBJ))
            elif k < 0.85:
                out += self.invocation([], 0)
            elif k < 0.93:
                out.append(r.choice(EOBJ_S + EOBJ_U))
            else:
                out.append(r.choice(list(FUN) + list(VAR)))     # function-like name without a call
                out.append(r.choice(PLAIN + [";"]))
        return "T " + " ".join(out)

    # ---- blocks ----------------------------------------------------------------------------------------
    def block(self, depth, n):
        r = self.r
        out = []
        for _ in range(n):
            k = r.random()
            if k < 0.30:
                out.append(self.text_line())
            elif k < 0.45:
                out.append(self.text_macro_def())
            elif k < 0.57:
                out.append(self.expr_macro_def())
            elif k < 0.64:
                out.append("U " + r.choice(OBJ + list(FUN) + list(VAR) + EOBJ_S + EOBJ_U + list(EFUN)))
            elif depth < 4 and r.random() < (0.9, 0.55, 0.4, 0.3)[depth]:
                out += self.ifsection(depth + 1)
            else:
                out.append(self.text_line())
        return out

    def ifhead(self):
        r = self.r
        k = r.random()
        if k < 0.6:
            return "IF " + " ".join(self.cond())
        n = r.choice(OBJ + list(FUN) + EOBJ_S + PLAIN[:1])
        return ("IFDEF " if k < 0.8 else "IFNDEF ") + n

    def ifsection(self, depth):
        r = self.r
        out = [self.ifhead()]
        out += self.block(depth, r.choice([0, 1, 1, 2]))
        for _ in range(r.choice([0, 0, 0, 1, 1, 2])):
            c = self.cond()
            if self.feat["elif_unevaluated"] and r.random() < 0.25:
                # after an unconditional first group the #elif condition is never evaluated: put a trap there
                out[0] = "IF " + r.choice(["1", "2 > 1", "! 0", "defined ( ZZ ) || 1"]) if not self.feat["guards"] else \
                    "IF " + r.choice(["1", "2 > 1", "! 0"])
                c = r.choice([["1", "/", "0"], ["1", "%", "0"], ["(", "1", "/", "0", ")", "+", "1"], ["1", "/", "UNDEF1"]])
            out.append("ELIF " + " ".join(c))
            out += self.block(depth, r.choice([0, 1, 1]))
        if r.random() < 0.5:
            out.append("ELSE")
            out += self.block(depth, r.choice([0, 1, 1]))
        out.append("ENDIF")
        return out


def gen_unit(r, feat, malformed=False):
    g = Gen(r, feat)
    pre = []
    # most units start by defining the expression macros so that conditions are meaningful
    for _ in range(r.choice([1, 2, 3])):
        pre.append(g.expr_macro_def())
    for _ in range(r.choice([1, 2, 3, 4])):
        pre.append(g.text_macro_def())
    body = g.block(0, r.choice([2, 3, 4, 5]))
    return pre + body + ["end"]


def damage(r, lines, feat):
    """directive-level damage: stray / missing / duplicated conditional directives"""
    g = Gen(r, feat)
    lines = list(lines)
    for _ in range(r.choice([1, 1, 2])):
        k = r.random()
        pos = r.randint(0, len(lines))
        if k < 0.25:
            lines.insert(pos, "ENDIF")
        elif k < 0.45:
            lines.insert(pos, "ELSE")
        elif k < 0.6:
            lines.insert(pos, "ELIF " + r.choice(["1", "0", "defined ( A )", "2 > 1"]))
        elif k < 0.8:
            idx = [i for i, l in enumerate(lines) if l == "ENDIF"]
            if idx:
                del lines[r.choice(idx)]
        else:
            lines.insert(pos, "IF " + r.choice(["1", "0", "defined ( A )"]))
    return lines


def unit_source(lines):
    """the C text of a unit (what the harness feeds to both preprocessors)"""
    out = []
    for l in lines:
        t = l.split()
        if not t or t[0] in ("end", "endref"):
            continue
        k = t[0]
        if k == "D":
            out.append("#define %s %s" % (t[1], " ".join(t[3:])))
        elif k == "F":
            c = t.index(":")
            out.append("#define %s(%s) %s" % (t[1], ", ".join(t[2:c]), " ".join(t[c + 1:])))
        elif k == "U":
            out.append("#undef " + t[1])
        elif k in ("IF", "ELIF"):
            out.append("#%s %s" % (k.lower(), " ".join(t[1:])))
        elif k in ("IFDEF", "IFNDEF"):
            out.append("#%s %s" % (k.lower(), t[1]))
        elif k in ("ELSE", "ENDIF"):
            out.append("#" + k.lower())
        elif k == "T":
            out.append(" ".join(t[1:]))
    return "\n".join(out) + "\n"


CPP_BAD = re.compile(r"overflow|division by zero|too large|shift|unterminated|missing|unbalanced|#else after|without #if|requires|passed|error")
ALL_NAMES = OBJ + list(FUN) + list(VAR) + EOBJ_S + EOBJ_U + list(EFUN)


def fnv1a(text):
    h = 0xcbf29ce484222325
    for b in text.encode():
        h = ((h ^ b) * 0x100000001b3) & 0xFFFFFFFFFFFFFFFF
    return "%016x" % h


def cpp_batch(units, tmpdir):
    """one cpp run over many (directive-balanced) units: returns per unit (accepted, output lines).  A unit is
       accepted (inside the property's domain) when cpp printed no diagnostic for any of its lines: no
       overflow / division by zero in an EVALUATED expression, no malformed invocation."""
    p = os.path.join(tmpdir, "batch_%d.c" % os.getpid())
    owner = []          # source line number (1-based) -> unit index
    with open(p, "w") as f:
        for k, u in enumerate(units):
            src = "__USEP__ %d\n" % k + unit_source(u) + "".join("#undef %s\n" % n for n in ALL_NAMES)
            f.write(src)
            owner += [k] * src.count("\n")
    rc, so, se = sh(["cpp", "-P", "-undef", p], timeout=600)
    bad = set()
    for m in re.finditer(r"^%s:(\d+):\d+: (?:fatal error|error|warning): (.*)$" % re.escape(p), se, re.M):
        ln = int(m.group(1))
        if CPP_BAD.search(m.group(2)) and 1 <= ln <= len(owner):
            bad.add(owner[ln - 1])
    outs = [[] for _ in units]
    cur = None
    for l in so.splitlines():
        t = ctokens(l)
        if not t:
            continue
        if t[0] == "__USEP__" and len(t) == 2:
            cur = int(t[1])
            continue
        if cur is not None:
            outs[cur].append(" ".join(t))
    os.unlink(p)
    return [(k not in bad, outs[k]) for k in range(len(units))]


def ctokens(s):
    return re.findall(r"[A-Za-z_][A-Za-z_0-9]*|[0-9][A-Za-z_0-9.]*|<<=|>>=|\.\.\.|->\*|<<|>>|<=|>=|==|!=|&&|\|\||\+\+|--|->|\+=|-=|\*=|/=|%=|&=|\|=|\^=|::|##|\S", s)


# ------------------------------------------------------------------------------------------ corpus
CORPUS = [
    # F17 (fixed by fixes/F17-elif-after-taken-group.patch): #elif after a taken group must not be evaluated
    ["IF 1", "T a", "ELIF 1 / 0", "T b", "ENDIF", "T c", "end"],
    ["IF 0", "IF 1 / 0", "T x", "ELIF 1 / 0", "T y", "ENDIF", "ENDIF", "T c", "end"],
    ["IF 0", "T a", "ELIF 1", "T b", "ELIF 1 / 0", "T c", "ELSE", "T d", "ENDIF", "end"],
    # F18 (C14's): && / || must not evaluate the right operand when the left decides
    ["IF 0 && ( 1 / 0 )", "T a", "ENDIF", "T c", "end"],
    ["IF 1 || ( 1 / 0 )", "T a", "ENDIF", "T c", "end"],
    ["IF 1 ? 2 : ( 1 / 0 )", "T a", "ENDIF", "T c", "end"],
    # F19/F60: #if arithmetic is intmax_t / uintmax_t
    ["IF 0xFFFFFFFF > 0", "T a", "ENDIF", "T c", "end"],
    ["IF 2147483648 > 0", "T a", "ENDIF", "T c", "end"],
    ["IF 2147483647 + 1 > 0", "T a", "ENDIF", "IF 4294967296 > 1", "T b", "ENDIF", "end"],
    ["IF 2000000000u + 2000000000u > 0xFFFFFFFFu", "T a", "ENDIF", "IF - 1 < 0xFFFFFFFF", "T b", "ENDIF", "end"],
    # the signed/unsigned boundary of intmax_t literals (2^63 - 1 is signed, 2^63 is unsigned)
    ["IF - 1 < 9223372036854775807", "T a", "ENDIF", "IF - 1 < 0x7FFFFFFFFFFFFFFF", "T b", "ENDIF",
     "IF - 1 < 9223372036854775808u", "T c", "ELSE", "T d", "ENDIF", "IF - 1 > 0x8000000000000000", "T e", "ENDIF",
     "IF 0x7FFFFFFFFFFFFFFF + 0 > 0 && 0xFFFFFFFFFFFFFFFF > 0", "T f", "ENDIF", "end"],
    # end markers handed down through nested expansions are all cleared: the macros work again on the next line
    ["D A : B", "D B : C x", "D C : 1", "T A", "T C B A", "F f a : A a", "T f ( B ) f ( C )", "T A B C", "end"],
    # F64 (fixed by fixes/F64-defined-without-parentheses.patch): `defined X`
    ["D X : 1", "IF defined X", "T yes", "ENDIF", "IF defined Y || ! defined X", "T no", "ELIF defined ( X ) && defined X",
     "T both", "ENDIF", "D Z : X", "IF defined Z && Z == 1 && ( defined X )", "T z", "ENDIF", "end"],
    # F61: __VA_ARGS__ keeps its commas
    ["F H a ... : a __VA_ARGS__", "T H ( 8 , 9 , 10 )", "F I ... : [ __VA_ARGS__ ]", "T I ( 1 , 2 , 3 )", "end"],
    # evaluation / precedence sanity
    ["IF ( 1 < 2 ) + ( 3 < 4 ) == 2", "T a", "ENDIF",
     "IF 10 / 3 * 3 + 10 % 3 == 10 && ( - 7 ) / 2 == - 3 && ( - 7 ) % 2 == - 1", "T b", "ENDIF",
     "IF 1 << 2 + 1 == 8 && ( 7 & 3 == 3 ) == 1", "T c", "ENDIF", "IF - 1 > 0u", "T j", "ENDIF", "end"],
    # macros
    ["D A : A B", "T A", "F f x : x f", "T f ( 1 ) ( 2 )", "D X : 1", "U X", "T X", "D X : 2", "D X : 3", "T X", "end"],
    ["F f x y : x + y", "T f ( ( 1 , 2 ) , 3 )", "T f ( f ( 1 , 2 ) , f ( 3 , 4 ) )", "end"],
    ["D A : B", "D B : A", "T A B", "D C : E D", "D E : C", "D D : C", "T C", "end"],
    # malformed directive sequences: errors, never a pop of the base status
    ["ENDIF", "ELSE", "ELIF 1", "T a", "end"],
    ["IF 1", "ELSE", "ELSE", "T a", "ELIF 1", "T b", "ENDIF", "ENDIF", "T c", "end"],
    ["IF 1", "T a", "IF 0", "T b", "end"],
]

# canonical replays of the recorded (status "known") findings; each must keep failing until repaired
KNOWN_REPLAYS = [
    ["D A : A B", "F f x : x", "T f ( A )", "end"],                                  # F62 no blue paint
    ["F f x : g ( x )", "F g x : f ( x )", "T f ( 1 )", "end"],                      # F63 mutual recursion: hang
    ["F f x : g ( x )", "F g x : f ( x ) x", "T f ( 1 )", "end"],                    # F63 mutual recursion: wrong tokens
    ["F f x : [ x ]", "D E :", "T f E ( 1 )", "end"],                                # F65 the token after a function-like name is expanded first
    ["D P : 1 , 2", "F f x : [ x ]", "T f ( P )", "end"],                            # F67 arguments are split AFTER they were expanded
    ["D E :", "F f x : [ x ]", "T f ( E )", "end"],                                  # F68 an argument that expands to nothing is "missing"
    ["D A : q", "F id a : a", "IF id ( defined ( A ) )", "T yes", "ENDIF", "end"],   # F69 defined(X) inside a macro argument
    ["IF 1 ? 0 : 1 ? 1 : 1", "T a", "ENDIF", "T c", "end"],                           # N5 (C15's) nested ?: is left-nested
    ["IF 0 + ! 1", "T a", "ENDIF", "IF 1 - - 1 == 2", "T b", "ENDIF", "end"],        # N3 (C15's) binary op before a unary op
    ["IF ~ ( 1 < 2 )", "T a", "ENDIF", "T c", "end"],                                # C14's: ~bool is !bool
]


def main(argv):
    ck = Check("C13", argv)
    ck.rule = ("translation units from the property's grammar as token lists: object-like / function-like / variadic macro "
               "definitions (nested, self-referential), #undef, redefinition, invocations with non-empty arguments (nested, "
               "protected commas, bare function-like names), nested #if/#ifdef/#ifndef/#elif/#else/#endif to depth 4 over typed "
               "integer expressions (literals of every width/base/suffix, defined(), macros, all C operators, guarded divisions, "
               "#elif traps after a taken group); units are kept only if gcc's cpp accepts them without an overflow/division "
               "diagnostic; a fraction has directive-level damage (stray/missing #endif/#else/#elif). A unit is non-trivial if "
               "the implementation kept at least one line; distinct by SHA-1 of the op text")
    ck.assumptions = ["LP64; intmax_t is 64 bit", "gcc's cpp (-P -undef) is the reference C preprocessor",
                      "tokenisation is not part of C13: units are generated as token lists joined by single spaces",
                      "macro invocations are complete on one line"]
    ok = ck.translate(["gen_pp"])
    ck.prove("C13")
    # development aid: objects of individually recompiled source files of $VERIF_REPO linked in front of the
    # shared libocca.so (a full scratch build of the tree takes hours on the loaded development machine)
    overlay = os.environ.get("VERIF_C13_OVERLAY", "").split()
    hb = ck.harness("h_pp", extra_flags=overlay)
    db = ck.driver("drv_cpp")
    # feature switches read from the translator: which repairs are present in the tree under test
    feat = {"guards": True, "elif_unevaluated": True, "unary_after_binary": False, "nested_ternary": False, "variadic": True,
            "self_ref": True}
    try:
        import gen_pp
        fl = gen_pp.flags()
        feat["guards"] = fl["shortCircuit"]
        feat["elif_unevaluated"] = fl["elifChecksStateFirst"]
        feat["unary_after_binary"] = fl["unaryAfterBinaryFixed"]
        feat["nested_ternary"] = fl["nestedTernaryFixed"]
        feat["defined_bare"] = fl["definedWithoutParens"]
        ck.cov["counters"]["tree_defined_without_parens"] = int(fl["definedWithoutParens"])
        ck.cov["counters"]["tree_short_circuit"] = int(fl["shortCircuit"])
        ck.cov["counters"]["tree_elif_fixed"] = int(fl["elifChecksStateFirst"])
    except Exception as e:  # translator failure already recorded
        pass
    tmpdir = os.path.join(BUILD, "tmp")
    refs = {}           # index in hs -> cpp output lines (units accepted by the batched cpp run)
    if ck.replay:
        hs = [read_replay(ck.replay)]
        known = []
    else:
        n = int(os.environ.get("VERIF_C13_UNITS", "0")) or (500 if ck.tier == "quick" else 12000)
        hs = list(CORPUS)
        rejected = 0
        rounds = 0
        while len(hs) < n + len(CORPUS) and rounds < 12:
            rounds += 1
            cand = [gen_unit(ck.rng, feat, malformed=False)[:-1] for _ in range(max(50, (n + len(CORPUS) - len(hs)) * 3 // 2))]
            for u, (ok_, out) in zip(cand, cpp_batch(cand, tmpdir)):
                # units whose expansion explodes (nested calls of macros that repeat their parameter) are dropped:
                # they only measure speed (the per-unit CPU budget of the harness), not agreement
                if not ok_ or sum(len(l.split()) for l in out) > 1200:
                    rejected += 1
                    continue
                if len(hs) >= n + len(CORPUS):
                    break
                if ck.rng.random() < 0.12:
                    # directive-level damage: cpp is run by the harness itself on these
                    hs.append(damage(ck.rng, u, feat) + ["end"])
                    continue
                refs[len(hs)] = out
                hs.append(u + ["expect %s ok %s" % (fnv1a(unit_source(u)), " <NL> ".join(out) or "<EMPTY>"), "end"])
        ck.cov["counters"]["units_rejected_by_cpp_filter"] = rejected
        known = KNOWN_REPLAYS
    env = {"VERIF_BUILD": BUILD,
           # LeakSanitizer off: OCCA leaks tokens on its error paths (argument-count errors); the report comes at
           # process exit and would be blamed on whatever unit happens to be the last one of the batch
           "ASAN_OPTIONS": "detect_leaks=0:abort_on_error=0:exitcode=66:allocator_may_return_null=1:detect_odr_violation=0"}
    # what the generated units exercise (measured on the op text)
    def count(rx):
        return sum(1 for h in hs if re.search(rx, "\n".join(h)))
    def depth(h):
        d = m = 0
        for l in h:
            if l.startswith(("IF ", "IFDEF ", "IFNDEF ")):
                d += 1
                m = max(m, d)
            elif l == "ENDIF":
                d -= 1
        return m
    C = ck.cov["counters"]
    C["units"] = len(hs)
    C["units_with_guarded_division"] = count(r"(&&|\|\||\?)[^\n]*\( [^\n]*[/%] (0|UNDEF1|\( 2 - 2 \))")
    C["units_with_trap_in_unevaluated_elif"] = count(r"\nELIF [^\n]*1 [/%] (0|UNDEF1)")
    C["units_with_elif_chain"] = count(r"\nELIF [^\n]*\n(?:(?!ENDIF)[^\n]*\n)*ELIF ")
    C["units_with_else"] = count(r"\nELSE\n")
    C["units_nesting_depth_ge3"] = sum(1 for h in hs if depth(h) >= 3)
    C["units_nesting_depth_4"] = sum(1 for h in hs if depth(h) >= 4)
    C["units_with_literal_ge_2pow63"] = count(r"\b(9223372036854775808u|18446744073709551615u|0x8000000000000000|0xFFFFFFFFFFFFFFFF)")
    C["units_with_literal_between_2pow31_and_2pow63"] = count(r"\b(2147483648|4294967295|4294967296|1099511627776|0x80000000|0xFFFFFFFF|0x100000000)\b")
    C["units_with_variadic_call"] = count(r"\b[vw] \(")
    C["units_with_self_reference"] = count(r"\n?[DF] (\w+) [^\n]*: [^\n]*\b\1\b")
    C["units_with_redefinition"] = count(r"(?:^|\n)[DF] (\w+) [^\n]*\n[\s\S]*\n[DF] \1 ")
    C["units_with_undef"] = count(r"\nU ")
    C["units_with_nested_invocation"] = count(r"\b[fghvw] \( [^\n)]*\b[fghvw] \(")
    C["units_with_unparenthesised_nested_ternary"] = count(r"\?[^()\n]*\?|\?[^\n]*:[^()\n]*\?")
    C["units_with_directive_damage"] = sum(1 for h in hs if not any(l.startswith("expect ") for l in h)) - len(CORPUS)
    if os.environ.get("VERIF_C13_DUMP"):
        # development aid (mutation experiments with hand-linked harness binaries): write the histories and stop
        with open(os.environ["VERIF_C13_DUMP"], "w") as f:
            for i, h in enumerate(hs + list(known)):
                f.write("# %d\n%s\n" % (i, "\n".join(h)))
        print("dumped %d histories" % (len(hs) + len(known)))
        sys.exit(0)
    nontriv = lambda h, obs: any(o.startswith("out=") and not o.startswith("out=<EMPTY> ") for o in obs)
    ck.correspond(hb, db, hs, label="units", env=env, nontrivial=nontriv, timeout=1500,
                  ubsan_is_violation=r"preprocessor\.cpp|macro\.cpp|primitive\.cpp|expr/")
    if known and hb and db:
        # the canonical replays of the recorded findings are already minimal: run them once, without shrinking
        impl, ora, notes = ck.run_impl(hb, known, timeout=900, env=env)
        model = ck.run_model(db, known, timeout=900)
        ck.notes += notes[:3]
        ck.cov["evaluations"] += len(known)
        ck.cov["counters"]["known_replays"] = len(known)
        still = 0
        for h, im, mo, om in zip(known, impl, model, ora):
            if im != mo or om:
                still += 1
                ck.report_failure("known", h, im, mo, om)
        ck.cov["counters"]["known_replays_still_failing"] = still
    # third leg: the REFERENCE semantics of the theorems (keepRef / evalRef / expandRef) against the real cpp
    if db and not ck.replay:
        idx = sorted(refs)[: (400 if ck.tier == "quick" else 8000)]
        refh = [[l for l in hs[i] if not l.startswith("expect ")][:-1] + ["endref"] for i in idx]
        mo = ck.run_model(db, refh, timeout=900)
        bad = 0
        for i, h, o in zip(idx, refh, mo):
            want = "ref=" + (" <NL> ".join(refs[i]) or "<EMPTY>")
            got = o[-1] if o else "MISSING"
            if got != want:
                bad += 1
                if bad <= 3:
                    ck.problems.append(("tie", "reference semantics (keepRef/evalRef/expandRef) disagrees with cpp on a unit: "
                                               "model %s cpp %s unit=%s" % (got[:200], want[:200], " | ".join(h)[:600])))
        ck.cov["counters"]["reference_vs_cpp_units"] = len(idx)
        ck.cov["counters"]["reference_vs_cpp_mismatches"] = bad
    ck.finish(META["level_text"])
