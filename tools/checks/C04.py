"""C04 — Memory-pool accounting matches its live reservations."""
from pool_common import *

META = {
    "technique": "Lean 4 proofs that the incremental `reserved` bookkeeping of modeMemoryPool_t equals an independently defined union measure (cardinality of the union of the alignment-rounded live ranges) after every operation; differential run of model vs the real pool with a recomputed union measure as oracle",
    "category": "proof",
    "level_text": "Proof over all finite histories of reserve/release/slice/resize/shrinkToFit/setAlignment: reserved() = number of byte positions covered by the alignment-rounded live ranges (defined as a finite-set cardinality, independently of the sweeps), numReservations() = number of live reservations, reserved() <= size(), releasing everything gives 0, resize below reserved() raises an error and changes nothing; tied to the code by regenerated flags/rounding expressions and a seeded differential run with a model-independent recomputation of the union measure.",
    "level_note": "Trusted: Lean kernel; translate/gen_pool.py; the hand-written model OccaModel/Pool.lean (validated by correspondence); Serial/OpenMP only; dim_t overflow excluded.",
    "design_ref": "DESIGN.md section 4, C03/C04/C05",
}


def main(argv):
    run_pool_check("C04", META, "account", argv, 700, 30000)
