"""C01 — handles release each backend object exactly once, for any handle history."""
from vlib import *

META = {
    "technique": "Lean 4 invariant proof over all operation histories of a model of the five handle classes (rings transliterated from gc.tpp with a proved refinement to lists); differential run of the model against the real handles under ASan/LSan with poisoned handle storage and live-object counters",
    "category": "proof",
    "level_text": "Proof (Lean 4) that for every history of construct/copy/assign/swap/free/destroy/dontUseRefs and object-creating calls on device, memory, memoryPool, kernel and stream handles the model never touches a destroyed object, destroys each object at most once, keeps handle pointers and ring membership in agreement, clears every alias on free() and leaks nothing once all handles are gone; the pointer-level ring code of gc.tpp is proved to refine the list operations the handle model uses; tied to the C++ by a seeded differential run (every handle's target, sizes, accounted bytes, live-object counters after every operation) with ASan/LSan, poisoned storage for destroyed handles and model-independent counter oracles.",
    "level_note": "Trusted: Lean kernel; the hand transliteration of the handle classes and backend destructors in OccaModel/Gc.lean (validated by the differential run, not proved equal to the C++); Serial mode only; memory safety of the C++ itself is observed by ASan, not proved; pool byte accounting, stream tags and wrapped memory are outside the model (C04/C05 cover accounting).",
    "design_ref": "DESIGN.md section 4, C01",
}

KINDS = "dmpks"
K = 5
SIZES = [0, 1, 16, 64, 100]
RSIZES = [0, 16, 128, 200]


class Shadow:
    """Approximate bookkeeping used only to bias the generator towards meaningful operations
    (which variables exist, which probably refer to something).  Never used as an oracle."""

    def __init__(self):
        self.live = {k: [False] * K for k in KINDS}
        self.tok = {k: [None] * K for k in KINDS}   # token: (serial, device serial, is pool reservation)
        self.n = 0

    def fresh(self, dev=None, pool=False):
        self.n += 1
        return (self.n, dev if dev is not None else self.n, pool)

    def lives(self, k):
        return [i for i in range(K) if self.live[k][i]]

    def deads(self, k):
        return [i for i in range(K) if not self.live[k][i]]

    def inits(self, k):
        return [i for i in range(K) if self.live[k][i] and self.tok[k][i] is not None]

    def kill(self, pred):
        for k in KINDS:
            for i in range(K):
                t = self.tok[k][i]
                if t is not None and pred(t):
                    self.tok[k][i] = None


def pick(r, xs):
    return xs[r.randrange(len(xs))] if xs else None


def gen_history(r, nops=None, profile=None):
    sh = Shadow()
    h = []
    nops = nops or r.randint(5, 60)
    profile = profile or r.choice(["mixed", "mixed", "mixed", "memory", "pool", "device", "streams", "noise"])
    w = {"ctor": 10, "copy": 8, "asg": 10, "swap": 7, "free": 6, "drop": 8, "norefs": 2.5, "mkdev": 3, "malloc": 9,
         "slice": 5, "mkpool": 4, "reserve": 6, "mkker": 2.5, "mkstr": 4, "getstr": 3, "setstr": 3, "getdev": 3, "junk": 1}
    if profile == "memory":
        w.update(malloc=16, slice=12, swap=12, mkker=0.5, mkstr=1)
    elif profile == "pool":
        w.update(mkpool=10, reserve=14, swap=10, free=9)
    elif profile == "device":
        w.update(mkdev=10, free=10, getdev=8, drop=10, mkpool=6, reserve=8)
    elif profile == "streams":
        w.update(mkstr=10, getstr=9, setstr=9, mkdev=8)
    elif profile == "noise":
        w.update(junk=10, norefs=4)
    names = list(w)
    weights = [w[n] for n in names]

    def var(k, i):
        return "%s%d" % (k, i)

    def anyvar(k, want_live=True):
        # mostly a live variable (constructed on demand), sometimes a dead one (rejected as bad-op by both sides)
        if want_live and r.random() < 0.96:
            c = sh.lives(k)
            if not c or (len(c) < 3 and r.random() < 0.3):
                i = pick(r, sh.deads(k))
                h.append("ctor " + var(k, i))
                sh.live[k][i] = True
                sh.tok[k][i] = None
                return i
            return pick(r, c)
        return r.randrange(K)

    def devvar():
        c = sh.inits("d")
        if c and r.random() < 0.9:
            return pick(r, c)
        return anyvar("d")

    # every history starts by making one device so that most operations are meaningful
    if r.random() < 0.9:
        for op in ("ctor d0", "mkdev d0"):
            h.append(op)
        sh.live["d"][0] = True
        sh.tok["d"][0] = sh.fresh()
    while len(h) < nops:
        op = r.choices(names, weights)[0]
        if op == "ctor":
            k = r.choice(KINDS)
            c = sh.deads(k)
            if not c:
                continue
            i = pick(r, c)
            h.append("ctor " + var(k, i))
            sh.live[k][i] = True
            sh.tok[k][i] = None
        elif op == "copy":
            k = r.choice(KINDS)
            d = pick(r, sh.deads(k)) if r.random() < 0.95 else r.randrange(K)
            s = anyvar(k)
            if d is None:
                continue
            h.append("copy %s %s" % (var(k, d), var(k, s)))
            if not sh.live[k][d] and sh.live[k][s]:
                sh.live[k][d] = True
                sh.tok[k][d] = sh.tok[k][s]
        elif op == "asg":
            k = r.choice(KINDS)
            d, s = anyvar(k), anyvar(k)
            h.append("asg %s %s" % (var(k, d), var(k, s)))
            if sh.live[k][d] and sh.live[k][s]:
                sh.tok[k][d] = sh.tok[k][s]
        elif op == "swap":
            k = r.choice("mmmp" if r.random() < 0.97 else "dks")
            a, b = anyvar(k), anyvar(k)
            h.append("swap %s %s" % (var(k, a), var(k, b)))
            if k in "mp" and sh.live[k][a] and sh.live[k][b]:
                sh.tok[k][a], sh.tok[k][b] = sh.tok[k][b], sh.tok[k][a]
        elif op == "free":
            k = r.choice(KINDS)
            c = sh.inits(k)
            i = pick(r, c) if (c and r.random() < 0.85) else anyvar(k)
            h.append("free " + var(k, i))
            t = sh.tok[k][i] if sh.live[k][i] else None
            if t is not None:
                if k == "d":
                    sh.kill(lambda x: x[1] == t[1])
                else:
                    sh.kill(lambda x: x[0] == t[0])
        elif op == "drop":
            k = r.choice(KINDS)
            i = anyvar(k)
            h.append("drop " + var(k, i))
            if sh.live[k][i]:
                sh.live[k][i] = False
                sh.tok[k][i] = None
        elif op == "norefs":
            k = r.choice(KINDS)
            h.append("norefs " + var(k, anyvar(k)))
        elif op == "mkdev":
            i = anyvar("d")
            h.append("mkdev " + var("d", i))
            if sh.live["d"][i]:
                sh.tok["d"][i] = sh.fresh()
        elif op == "malloc":
            m, d = anyvar("m"), devvar()
            n = r.choice(SIZES)
            h.append("malloc %s %s %d" % (var("m", m), var("d", d), n))
            if sh.live["m"][m] and sh.live["d"][d] and sh.tok["d"][d]:
                sh.tok["m"][m] = sh.fresh(sh.tok["d"][d][1]) if n else None
        elif op == "slice":
            # slices of pool reservations are steered around (pool accounting, C04's ledger entry F07)
            c = [i for i in sh.inits("m") if not sh.tok["m"][i][2]]
            src = pick(r, c) if (c and r.random() < 0.9) else pick(r, [i for i in range(K) if not (sh.live["m"][i] and sh.tok["m"][i] and sh.tok["m"][i][2])])
            if src is None:
                continue
            dst = anyvar("m")
            off, n = r.choice([0, 0, 1, 8, 50, 100]), r.choice([0, 1, 8, 16, 64, 100])
            h.append("slice %s %s %d %d" % (var("m", dst), var("m", src), off, n))
            if sh.live["m"][dst] and sh.live["m"][src]:
                t = sh.tok["m"][src]
                sh.tok["m"][dst] = sh.fresh(t[1]) if t else None      # may be wrong on err; only a bias
        elif op == "mkpool":
            p, d = anyvar("p"), devvar()
            h.append("mkpool %s %s" % (var("p", p), var("d", d)))
            if sh.live["p"][p] and sh.live["d"][d] and sh.tok["d"][d]:
                sh.tok["p"][p] = sh.fresh(sh.tok["d"][d][1])
        elif op == "reserve":
            c = sh.inits("p")
            p = pick(r, c) if (c and r.random() < 0.9) else anyvar("p")
            m = anyvar("m")
            n = r.choice(RSIZES)
            h.append("reserve %s %s %d" % (var("m", m), var("p", p), n))
            if sh.live["m"][m] and sh.live["p"][p] and sh.tok["p"][p]:
                sh.tok["m"][m] = sh.fresh(sh.tok["p"][p][1], True) if n else None
        elif op in ("mkker", "mkstr", "getstr"):
            k = "k" if op == "mkker" else "s"
            x, d = anyvar(k), devvar()
            h.append("%s %s %s" % (op, var(k, x), var("d", d)))
            if sh.live[k][x] and sh.live["d"][d] and sh.tok["d"][d]:
                sh.tok[k][x] = sh.fresh(sh.tok["d"][d][1])
        elif op == "setstr":
            h.append("setstr %s %s" % (var("d", devvar()), var("s", anyvar("s"))))
        elif op == "getdev":
            k = r.choice("mpks")
            c = sh.inits(k)
            x = pick(r, c) if (c and r.random() < 0.8) else anyvar(k)
            d = anyvar("d")
            h.append("getdev %s %s" % (var("d", d), var(k, x)))
            if sh.live["d"][d] and sh.live[k][x]:
                t = sh.tok[k][x]
                sh.tok["d"][d] = (t[1], t[1], False) if t else None
        else:
            h.append(r.choice(["swap d0 d1", "getdev d0 d1", "malloc m0 m1 4", "ctor x9", "free", "asg m0 p0",
                               "slice m0 m1 100 100", "copy m7 m0", "reserve m0 p0 0", "malloc m0 d0 0"]))
    h.append("end")
    return h


CORPUS = [
    # F01: swap must move ring membership with the pointer
    ["ctor d0", "mkdev d0", "ctor m0", "ctor m1", "malloc m0 d0 16", "malloc m1 d0 64", "swap m0 m1", "drop m1", "drop m0", "end"],
    ["ctor d0", "mkdev d0", "ctor m0", "ctor m1", "malloc m0 d0 16", "swap m0 m1", "drop m0", "free m1", "end"],
    ["ctor d0", "mkdev d0", "ctor p0", "ctor p1", "mkpool p0 d0", "swap p0 p1", "drop p0", "ctor m0", "reserve m0 p1 16", "free p1", "end"],
    ["ctor d0", "mkdev d0", "ctor m0", "malloc m0 d0 16", "swap m0 m0", "copy m1 m0", "swap m0 m1", "free m1", "end"],
    # F02: device.free() with a live memory pool (pool first / a buffer first / pool in the middle)
    ["ctor d0", "mkdev d0", "ctor p0", "mkpool p0 d0", "ctor m0", "reserve m0 p0 16", "free d0", "end"],
    ["ctor d0", "mkdev d0", "ctor m1", "malloc m1 d0 64", "ctor p0", "mkpool p0 d0", "ctor m0", "reserve m0 p0 16", "free d0", "end"],
    ["ctor d0", "mkdev d0", "ctor p0", "mkpool p0 d0", "ctor m0", "reserve m0 p0 16", "ctor m1", "malloc m1 d0 64", "drop d0", "end"],
    ["ctor d0", "mkdev d0", "ctor p0", "mkpool p0 d0", "ctor m0", "reserve m0 p0 16", "reserve m0 p0 200", "ctor m1", "malloc m1 d0 8", "free d0", "end"],
    # dontUseRefs: objects survive their handles until freed explicitly or with their device
    ["ctor d0", "mkdev d0", "ctor m0", "malloc m0 d0 16", "norefs m0", "drop m0", "ctor k0", "mkker k0 d0", "norefs k0", "drop k0", "drop d0", "end"],
    ["ctor d0", "mkdev d0", "norefs d0", "ctor m0", "malloc m0 d0 16", "drop d0", "end"],
    # the current stream: user handles, replacement, stream of another device
    ["ctor d0", "mkdev d0", "ctor s0", "getstr s0 d0", "ctor s1", "mkstr s1 d0", "setstr d0 s1", "drop s1", "free s0", "getstr s0 d0", "end"],
    ["ctor d0", "mkdev d0", "ctor d1", "mkdev d1", "ctor s0", "mkstr s0 d1", "setstr d0 s0", "drop s0", "free d1", "getstr s0 d0", "end"],
    ["ctor d0", "mkdev d0", "ctor d1", "mkdev d1", "ctor s0", "mkstr s0 d1", "setstr d0 s0", "drop s0", "free d0", "end"],
    # slices keep the buffer alive; free of a slice; device handle recovered from a memory
    ["ctor d0", "mkdev d0", "ctor m0", "malloc m0 d0 64", "ctor m1", "slice m1 m0 8 16", "drop m0", "ctor d1", "getdev d1 m1", "drop d0", "free m1", "end"],
    ["ctor d0", "mkdev d0", "ctor m0", "malloc m0 d0 64", "slice m0 m0 0 64", "slice m0 m0 100 1", "free d0", "end"],
]


def nontrivial(h, impl):
    return sum(1 for o in impl if o.startswith("ok")) >= 3 and any(o.startswith("ok") and "live=0,0,0,0,0,0,0" not in o for o in impl)


def main(argv):
    ck = Check("C01", argv)
    ck.rule = ("histories of 5-60 operations over 5 variables of each handle class (device, memory, memoryPool, kernel, stream) on "
               "Serial devices: construct, copy-construct, assign, swap, free, destroy, dontUseRefs, device creation, malloc, slice, "
               "pool creation / reserve, kernel build, stream create / get / set, getDevice; 5% of operand choices are "
               "dead variables, about 1% of lines are malformed (both rejected as bad-op); every history ends with `end` (destroy "
               "everything, leak check).  Non-trivial: at least three accepted operations and at least one observation with a "
               "live backend object; distinct by SHA-1 of the op text")
    ck.assumptions = ["Serial mode", "single thread (C30 covers sharable devices)",
                      "slices of pool reservations are steered around (pool accounting belongs to C04)"]
    ck.prove("C01")
    hb = ck.harness("h_gc")
    db = ck.driver("drv_gc")
    if ck.replay:
        hs = [read_replay(ck.replay)]
    else:
        n = 1500 if ck.tier == "quick" else 20000
        hs = CORPUS + [gen_history(ck.rng) for _ in range(n)]
    mix = {}
    for h in hs:
        for l in h:
            k = "op_" + (l.split() or ["?"])[0]
            mix[k] = mix.get(k, 0) + 1
    ck.cov["counters"].update(mix)
    ck.cov["counters"]["histories_with_swap"] = sum(1 for h in hs if any(l.startswith("swap ") for l in h))
    ck.cov["counters"]["histories_with_device_free_over_pool"] = sum(
        1 for h in hs if any(l.startswith("reserve ") for l in h) and any(l.startswith(("free d", "drop d")) for l in h))
    ck.cov["counters"]["histories_with_dontUseRefs"] = sum(1 for h in hs if any(l.startswith("norefs ") for l in h))
    supp = os.path.join(VERIF, "harness", "h_gc.lsan.supp")
    env = {"LSAN_OPTIONS": "suppressions=%s:print_suppressions=0" % supp}
    ck.correspond(hb, db, hs, label="handles", nontrivial=nontrivial, timeout=3000, env=env,
                  ubsan_is_violation=r"gc\.(tpp|cpp|hpp)|core/(memory|memoryPool|device|kernel|stream|buffer)\.(cpp|hpp)")
    ck.finish(META["level_text"])
