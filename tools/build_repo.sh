#!/bin/bash
# Build /repo's CURRENT working tree (incrementally) into $VERIF_BUILD/<variant>.
#   variant asan : g++ ASan+UBSan, -DLIBOCCA_OCCA_VERIF, OpenMP on, GPU backends off
#   variant tsan : as above but -fsanitize=thread and ENABLE_SHARABLE_DEVICE=ON (C30)
# Serialised through flock so that concurrently started checks share one build.
set -e
VARIANT=${1:-asan}
HERE=$(cd "$(dirname "$0")/.." && pwd)
REPO=${VERIF_REPO:-/repo}
BUILD=${VERIF_BUILD:-$HERE/.build}
DIR=$BUILD/$VARIANT
mkdir -p "$BUILD"
exec 9>"$BUILD/.lock.$VARIANT"
flock 9
case $VARIANT in
  asan) SAN="-fsanitize=address,undefined"; SHARE=OFF;;
  tsan) SAN="-fsanitize=thread"; SHARE=ON;;
  *) echo "unknown variant $VARIANT" >&2; exit 2;;
esac
if [ ! -f "$DIR/build.ninja" ]; then
  cmake -G Ninja -S "$REPO" -B "$DIR" -DCMAKE_BUILD_TYPE=RelWithDebInfo \
    -DCMAKE_CXX_FLAGS="-Wno-error -DLIBOCCA_OCCA_VERIF $SAN -fno-omit-frame-pointer -O1" \
    -DCMAKE_C_FLAGS="$SAN -fno-omit-frame-pointer -O1" \
    -DOCCA_ENABLE_TESTS=OFF -DOCCA_ENABLE_EXAMPLES=OFF \
    -DOCCA_ENABLE_CUDA=OFF -DOCCA_ENABLE_HIP=OFF -DOCCA_ENABLE_OPENCL=OFF \
    -DOCCA_ENABLE_METAL=OFF -DOCCA_ENABLE_DPCPP=OFF -DOCCA_ENABLE_OPENMP=ON \
    -DENABLE_SHARABLE_DEVICE=$SHARE > "$DIR.cmake.log" 2>&1 || { cat "$DIR.cmake.log" >&2; exit 2; }
fi
cmake --build "$DIR" -j"${VERIF_JOBS:-16}" > "$DIR.build.log" 2>&1 || { tail -50 "$DIR.build.log" >&2; exit 2; }
echo "$DIR"
