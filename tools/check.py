#!/usr/bin/env python3
"""Entry point:  tools/check.py C27 [--tier quick|thorough] [--seed N] [--replay FILE]"""
import importlib, os, sys
HERE = os.path.dirname(os.path.abspath(__file__))
sys.path.insert(0, HERE)
sys.path.insert(0, os.path.join(HERE, "checks"))
if len(sys.argv) < 2:
    print("usage: check.py Cxx [--tier quick|thorough] [--seed N] [--replay FILE]")
    sys.exit(2)
pid = sys.argv[1]
mod = importlib.import_module(pid)
mod.main(sys.argv[2:])
