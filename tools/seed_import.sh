#!/bin/bash
# Confirm a seeded change from seeded-inbox/<prop>/m<k>.* and, if confirmed, keep it as seeded/<prop>-m<k>/
#   tools/seed_import.sh C25 1
set -u
HERE=$(cd "$(dirname "$0")/.." && pwd)
P=$1; K=$2
IN=$HERE/seeded-inbox/$P
DEMO=$(ls $IN/m$K-demo.* | head -1)
out=$($HERE/tools/seed_verify.sh $IN/m$K.patch $DEMO /tmp/mut-$P 2>&1)
echo "$out" | tail -5
if echo "$out" | grep -q "RESULT confirmed"; then
  D=$HERE/seeded/$P-m$K; mkdir -p $D
  cp $IN/m$K.patch $D/patch.diff; cp $DEMO $D/; 
  python3 - "$IN/m$K-meta.json" "$D/meta.json" "$out" <<'PY'
import json, sys
m = json.load(open(sys.argv[1]))
m["confirmed_by_integrator"] = [l for l in sys.argv[3].splitlines() if l.startswith(("demo on", "tests with", "RESULT"))]
m["base_commit"] = __import__("subprocess").run(["git", "-C", "/repo", "rev-parse", "--short", "HEAD"], capture_output=True, text=True).stdout.strip()
json.dump(m, open(sys.argv[2], "w"), indent=1)
PY
  echo "kept as $D"
else
  echo "NOT kept ($P m$K)"
fi
