#!/usr/bin/env python3
"""Run the registered checks against every kept seeded change (seeded/<id>/patch.diff) in a scratch
worktree (tools/seed_check.sh) and record which check reports which change.

  tools/seed_all.py [seed-id ...]      -> seeded/<id>/result.json, seeded/RESULTS.md
"""
import json, os, subprocess, sys, time, glob, re
VERIF = os.path.dirname(os.path.dirname(os.path.abspath(__file__)))
ids = sys.argv[1:] or sorted(os.path.basename(os.path.dirname(p)) for p in glob.glob(os.path.join(VERIF, "seeded", "*", "meta.json")))
claimed = {c["property_id"] for c in json.load(open(os.path.join(VERIF, "MANIFEST.json")))["checks"]}
for sid in ids:
    d = os.path.join(VERIF, "seeded", sid)
    meta = json.load(open(os.path.join(d, "meta.json")))
    props = [meta["property"]] + [p for p in meta.get("also_run", [])]
    props = [p for p in props if p in claimed]
    t0 = time.time()
    if not props:
        res = {"seed": sid, "checks": [], "caught": False, "note": "property not claimed by any check"}
    else:
        p = subprocess.run([os.path.join(VERIF, "tools", "seed_check.sh"), os.path.join(d, "patch.diff")] + props,
                           capture_output=True, text=True)
        lines = p.stdout.splitlines()
        res = {"seed": sid, "checks": props, "caught": p.returncode == 0,
               "violation_lines": [l for l in lines if l.startswith("VIOLATION")][:6],
               "what": [l for l in lines if l.startswith("# ")][:4], "wall_s": round(time.time() - t0, 1)}
    json.dump(res, open(os.path.join(d, "result.json"), "w"), indent=1)
    print(sid, "CAUGHT" if res["caught"] else "MISSED", res.get("what", [""])[:1])
rows = []
for p in sorted(glob.glob(os.path.join(VERIF, "seeded", "*", "meta.json"))):
    d = os.path.dirname(p)
    meta = json.load(open(p))
    r = json.load(open(os.path.join(d, "result.json"))) if os.path.exists(os.path.join(d, "result.json")) else {}
    rows.append("| %s | %s | %s | %s | %s |" % (os.path.basename(d), meta["property"], meta.get("summary", "").replace("|", "/")[:110],
                                              meta.get("needs", "").replace("|", "/")[:90],
                                              ("caught: " + (r.get("what") or [""])[0][2:90]) if r.get("caught") else ("MISSED" if r else "not run")))
with open(os.path.join(VERIF, "seeded", "RESULTS.md"), "w") as f:
    f.write("# Seeded changes and which check reports them\n\n| id | property | change | needs | result |\n|---|---|---|---|---|\n" + "\n".join(rows) + "\n")
