#!/usr/bin/env python3
"""Maintain fixes/: regenerate the applied-patch series from /repo's history (snapshot..HEAD) and
write fixes/APPLIED.md (commit, kind, subject).  Also fill `"commit":"pending"` fields of
known_findings.jsonl by matching the finding id against an agent patch file name prefix found in
any /tmp/ag-*/fixes or fixes.src/ directory (id -> subject -> commit)."""
import glob, json, os, re, subprocess, sys
VERIF = os.path.dirname(os.path.dirname(os.path.abspath(__file__)))
BASE = "3748e1c"
PROP_GROUP = {"C01": "gc", "C02": "mem", "C03": "pool", "C04": "pool", "C05": "pool", "C06": "cachekey", "C07": "cachekey",
              "C08": "buildfs", "C09": "buildfs", "C10": "dtype", "C11": "dtype", "C12": "lex", "C13": "pp", "C14": "prim",
              "C15": "expr", "C16": "fuzz", "C17": "loops", "C18": "loops", "C19": "loops", "C20": "okl", "C21": "okl",
              "C22": "okl", "C23": "func", "C24": "json", "C25": "json", "C26": "json", "C28": "trie", "C29": "capi"}
log = subprocess.run(["git", "-C", "/repo", "log", "--reverse", "--format=%h\t%s", BASE + "..HEAD"], capture_output=True, text=True).stdout
commits = [l.split("\t", 1) for l in log.splitlines() if l.strip()]
fx = os.path.join(VERIF, "fixes")
for f in glob.glob(os.path.join(fx, "[0-9][0-9][0-9][0-9]-*.patch")):
    os.unlink(f)
subprocess.run(["git", "-C", "/repo", "format-patch", "-q", BASE + "..HEAD", "-o", fx], check=True)
with open(os.path.join(fx, "APPLIED.md"), "w") as f:
    f.write("# Commits applied to /repo on top of the pinned snapshot (%s), in order\n\n| commit | kind | subject |\n|---|---|---|\n" % BASE)
    for h, s in commits:
        f.write("| %s | %s | %s |\n" % (h, s.split(":")[0], s.replace("|", "/")))
# subject -> commit
def norm(s):
    return re.sub(r"\s+", " ", s).strip()
by_subject = {norm(s): h for h, s in commits}
# agent patch files: id prefix -> subject
id_subject = {}
for p in glob.glob(os.path.join(VERIF, "fixes", "[A-Z]*.patch")) + glob.glob("/tmp/ag-*/fixes/*.patch"):
    grp = p.split("/")[-3]
    txt = open(p, errors="replace").read()
    m = re.search(r"^Subject: (?:\[PATCH[^\]]*\] )?(.*?)\n(?:\S|$)", txt, re.S | re.M)
    if not m:
        continue
    subj = norm(m.group(1).replace("\n ", " "))
    parts = os.path.basename(p).split("-")
    for pid in (parts[0], "-".join(parts[:2])):
        id_subject[(grp, pid)] = subj
        id_subject.setdefault(("*", pid), subj)
kf = os.path.join(VERIF, "known_findings.jsonl")
out, changed = [], 0
for l in open(kf):
    if not l.strip():
        continue
    e = json.loads(l)
    if e.get("status") == "fixed" and e.get("commit") in (None, "", "pending"):
        grp = "ag-" + PROP_GROUP.get(e.get("property"), "?")
        short = re.sub(r"^C\d\d-", "", e["id"])
        subj = (id_subject.get((grp, e["id"])) or id_subject.get((grp, short)) or id_subject.get(("fixes", e["id"]))
                or id_subject.get(("fixes", short)) or id_subject.get(("*", e["id"])) or id_subject.get(("*", short)))
        if subj and subj in by_subject:
            e["commit"] = by_subject[subj]
            changed += 1
    out.append(json.dumps(e, ensure_ascii=False))
open(kf, "w").write("\n".join(out) + "\n")
print("commits:", len(commits), "pending filled:", changed)
